/-!
# Streaming dataframe aggregations (C06; the step functions are reused by C12)

Executable model, core Lean only.

* A value is `Option Rat` (`none` = NaN), a column a list of values, a frame a
  list of rows (a row = association list column name ↦ value), a batch a frame.
* **Specification side** (`psum`, `pcount`, `psize`, `pmean`, `pvar`,
  `valueCounts`, `groupBy`): what pandas computes on one (concatenated) frame.
* **Implementation side**: transcription of `streamz/dataframe/aggregations.py`
  — every `Aggregation` is an explicit pure step
  `initial : Batch → State`, `onNew : State → Batch → State × Result`
  (and `onOld` for the windowed use in C07), wired into
  `accumulator` (aggregations.py:407-420) / `groupby_accumulator` (594-602) and the
  `accumulate(start=None, returns_state=True)` node (core.py:1004-1025).
* Element-wise expressions, filters, column selection and assignment:
  `map_partitions` (collection.py:9-48) over streams-as-lists.

Python line numbers refer to the pinned tree.  `Mean` is modelled as FIXED by
fix-1 (the `counts == 0` special case yields NaN and is not stored); the
unchanged code is kept as `MeanOrig` for the proved counter-example.
-/
namespace StreamzVerif.Agg

abbrev Val := Option Rat
abbrev Col := List Val

/-! ## pandas reductions of one column (specification) -/

/-- the non-NaN entries -/
def vals (c : Col) : List Rat := c.filterMap id
/-- `Series.sum()` (skipna): Σ non-NaN, 0 for none -/
def psum (c : Col) : Rat := (vals c).sum
/-- `(s ** 2).sum()` -/
def psumsq (c : Col) : Rat := ((vals c).map fun v => v * v).sum
/-- `Series.count()`: number of non-NaN entries -/
def pcount (c : Col) : Int := ((vals c).length : Nat)
/-- `Series.size` / `len`: number of rows -/
def psize (c : Col) : Int := (c.length : Nat)
/-- float division where the result is a number: `x / 0` is NaN here.  (IEEE gives
±inf for `x ≠ 0`; every division in the modelled code has numerator 0 when the
denominator is 0 as long as `ddof ≤ 1`, see `varResult`.) -/
def odiv (a b : Rat) : Val := if b = 0 then none else some (a / b)
/-- `Series.mean()`: NaN when there is no non-NaN entry -/
def pmean (c : Col) : Val := odiv (psum c) (pcount c)
/-- `Series.var(ddof)`, textbook definition Σ (v - mean)² / (n - ddof); NaN when `n ≤ ddof`
(pandas `nanops.nanvar`). -/
def pvar (ddof : Nat) (c : Col) : Val :=
  if pcount c ≤ (ddof : Int) then none
  else
    let m : Rat := psum c / (pcount c : Rat)
    some (((vals c).map fun v => (v - m) * (v - m)).sum / ((pcount c : Rat) - (ddof : Rat)))

/-! ## The generic wiring: `accumulator` and the `accumulate` node -/

/-- An `Aggregation` object: `initial`, `on_new`; `raised r` says that result `r`
stands for an exception raised inside `on_new` (none of the modelled aggregations does since `Var` was repaired). -/
structure Aggregation (β σ ρ : Type) where
  initial : β → σ
  onNew : σ → β → σ × ρ
  raised : ρ → Bool := fun _ => false

/-- aggregations.py:407-420 (`accumulator`) and 594-602 (`groupby_accumulator`):
`if acc is None: acc = agg.initial(new)`; `return agg.on_new(acc, new)`. -/
def accumulator (A : Aggregation β σ ρ) (acc : Option σ) (new : β) : σ × ρ :=
  A.onNew (match acc with | none => A.initial new | some s => s) new

/-- core.py:1004-1025, `accumulate.update` with `start=None, returns_state=True`: the
state is replaced and the result emitted; when `func` raises, the exception
propagates to the emitter and `self.state` keeps its old value. -/
def node (A : Aggregation β σ ρ) (acc : Option σ) (new : β) : Option σ × ρ :=
  let sr := accumulator A acc new
  if A.raised sr.2 then (acc, sr.2) else (some sr.1, sr.2)

/-- What the aggregation stream emits (or raises) for each batch of `bs`, starting in node state `acc`. -/
def runFrom (A : Aggregation β σ ρ) : Option σ → List β → List ρ
  | _, [] => []
  | acc, b :: bs => (node A acc b).2 :: runFrom A (node A acc b).1 bs

/-- Node state after the batches `bs`. -/
def stateFrom (A : Aggregation β σ ρ) : Option σ → List β → Option σ
  | acc, [] => acc
  | acc, b :: bs => stateFrom A (node A acc b).1 bs

/-- `Frame.aggregate` (core.py:53-57), `Series.value_counts` (394-398), `GroupBy._accumulate`
(806-838): `accumulate(..., start=None, returns_state=True)`. -/
def run (A : Aggregation β σ ρ) (bs : List β) : List ρ := runFrom A none bs

/-! ## Scalar aggregations (aggregations.py:15-130) on a Series batch -/

/-- `Sum` (15-33).  `initial` = 0 of the right shape; `on_new` guarded by `if len(new)`. -/
def Sum : Aggregation Col Rat Rat where
  initial _ := 0
  onNew acc new :=
    let result := if new.isEmpty then acc else acc + psum new
    (result, result)
/-- `Sum.on_old` (22-24) -/
def Sum.onOld (acc : Rat) (old : Col) : Rat × Rat := (acc - psum old, acc - psum old)

/-- `Count` (64-74): no guard. -/
def Count : Aggregation Col Int Int where
  initial _ := 0
  onNew acc new := (acc + pcount new, acc + pcount new)
def Count.onOld (acc : Int) (old : Col) : Int × Int := (acc - pcount old, acc - pcount old)

/-- `Size` (77-87) -/
def Size : Aggregation Col Int Int where
  initial _ := 0
  onNew acc new := (acc + psize new, acc + psize new)
def Size.onOld (acc : Int) (old : Col) : Int × Int := (acc - psize old, acc - psize old)

structure MeanSt where
  totals : Rat
  counts : Int
deriving DecidableEq, Repr

/-- result of `Mean` as FIXED by fix-1: NaN when nothing has been counted, state untouched. -/
def meanResult (s : MeanSt) : Val := if s.counts = 0 then none else some (s.totals / (s.counts : Rat))

/-- `Mean` (36-61), fixed. -/
def Mean : Aggregation Col MeanSt Val where
  initial _ := { totals := 0, counts := 0 }
  onNew acc new :=
    let s : MeanSt := if new.isEmpty then acc
      else { totals := acc.totals + psum new, counts := acc.counts + pcount new }
    (s, meanResult s)
/-- `Mean.on_old` (46-53), fixed. -/
def Mean.onOld (acc : MeanSt) (old : Col) : MeanSt × Val :=
  let s : MeanSt := if old.isEmpty then acc
    else { totals := acc.totals - psum old, counts := acc.counts - pcount old }
  (s, meanResult s)

/-- `Mean` of the UNCHANGED tree (36-44): `if counts == 0: counts = 1` and the substitute is
*stored* in the returned state. -/
def MeanOrig : Aggregation Col MeanSt Val where
  initial _ := { totals := 0, counts := 0 }
  onNew acc new :=
    let s : MeanSt := if new.isEmpty then acc
      else { totals := acc.totals + psum new, counts := acc.counts + pcount new }
    let s' : MeanSt := if s.counts = 0 then { s with counts := 1 } else s
    (s', some (s'.totals / (s'.counts : Rat)))

/-- `Var` state (x, x2, n).  `pyint` records that the three numbers are still the Python
ints `0` written by `initial` (a representation detail the correspondence compares).  Dividing
those used to raise `ZeroDivisionError`; since the repair in /repo (`Var._compute_result` returns
NaN when the count is the number 0, as `Mean` does) the result is NaN like with numpy scalars. -/
structure VarSt where
  x : Rat
  x2 : Rat
  n : Int
  pyint : Bool
deriving DecidableEq, Repr

/-- a float result (the unrepaired `Var` could raise instead; nothing does any more) -/
inductive Res where
  | ok (v : Val)
deriving DecidableEq, Repr

/-- `Var._compute_result` (94-98) in numpy arithmetic:
`result = x2 / n - (x / n) ** 2; if ddof != 0: result = result * n / (n - ddof)`.
For `ddof ≤ 1` the last numerator is 0 whenever `n = ddof`, so NaN is what IEEE gives;
for `ddof ≥ 2` and `0 < n = ddof` IEEE gives ±inf (not modelled — the check uses ddof ∈ {0,1}). -/
def varResult (ddof : Nat) (x x2 : Rat) (n : Int) : Val :=
  match odiv x2 n, odiv x n with
  | some a, some b =>
    let r := a - b * b
    if ddof = 0 then some r else odiv (r * n) ((n : Rat) - (ddof : Rat))
  | _, _ => none

/-- `Var` (90-130). -/
def Var (ddof : Nat) : Aggregation Col VarSt Res where
  initial _ := { x := 0, x2 := 0, n := 0, pyint := true }
  onNew acc new :=
    let s : VarSt := if new.isEmpty then acc
      else { x := acc.x + psum new, x2 := acc.x2 + psumsq new, n := acc.n + pcount new, pyint := false }
    (s, Res.ok (varResult ddof s.x s.x2 s.n))
/-- `Var.on_old` (110-118); states reached through `on_new` of a non-empty batch are numpy-typed. -/
def Var.onOld (ddof : Nat) (acc : VarSt) (old : Col) : VarSt × Res :=
  let s : VarSt := if old.isEmpty then acc
    else { x := acc.x - psum old, x2 := acc.x2 - psumsq old, n := acc.n - pcount old, pyint := false }
  (s, Res.ok (varResult ddof s.x s.x2 s.n))

/-! ## Finite maps (pandas Series indexed by group key) -/

/-- association list key ↦ value; `get` looks at the first entry for a key -/
abbrev GMap (V : Type) := List (Rat × V)

def GMap.get (m : GMap V) (k : Rat) : Option V := List.lookup k m
def GMap.keys (m : GMap V) : List Rat := m.map (·.1)

/-- two Series with the same index (as a set) and the same value at every key — equality up
to the order of the index, which is how the check compares results (index sorted) -/
def GMap.Same {V : Type} (a b : GMap V) : Prop := ∀ k, a.get k = b.get k

/-- Binary Series arithmetic with index alignment: the result index is the union of both
indexes; `f` sees `none` where a side has no entry. -/
def GMap.align {A B C : Type} (f : Option A → Option B → C) (a : GMap A) (b : GMap B) : GMap C :=
  a.map (fun p => (p.1, f (some p.2) (b.get p.1))) ++
  (b.filter (fun p => (a.get p.1).isNone)).map (fun p => (p.1, f none (some p.2)))

/-- `acc.add(other, fill_value=0)` (and the same shape for Int counts). -/
def GMap.addFill [Add V] (z : V) (a b : GMap V) : GMap V :=
  GMap.align (fun x y => x.getD z + y.getD z) a b
/-- `acc.sub(other, fill_value=0)` -/
def GMap.subFill [Sub V] (z : V) (a b : GMap V) : GMap V :=
  GMap.align (fun x y => x.getD z - y.getD z) a b

/-! ## value_counts and groupby on one frame (specification) -/

/-- `Series.value_counts()`: NaN dropped; value ↦ number of occurrences. -/
def valueCounts (c : Col) : GMap Int :=
  (vals c).eraseDups.map fun k => (k, (((vals c).count k : Nat) : Int))

/-- a row of a grouped selection: (group key, value) -/
abbrev GRow := Val × Val
/-- the distinct non-NaN keys (`dropna=True`) -/
def groupKeys (rows : List GRow) : List Rat := (rows.filterMap (·.1)).eraseDups
/-- the values of the rows whose key is `k` -/
def sel (k : Rat) (rows : List GRow) : Col := (rows.filter fun r => r.1 == some k).map (·.2)
/-- `df.groupby(key)[col].agg(red)` -/
def groupBy (red : Col → V) (rows : List GRow) : GMap V :=
  (groupKeys rows).map fun k => (k, red (sel k rows))

/-! ## Groupby aggregations (aggregations.py:423-591) and ValueCounts (506-518) -/

/-- `ValueCounts`: `acc.add(new.value_counts(), fill_value=0)`, no guard. -/
def ValueCounts : Aggregation Col (GMap Int) (GMap Int) where
  initial _ := []
  onNew acc new := (GMap.addFill 0 acc (valueCounts new), GMap.addFill 0 acc (valueCounts new))
def ValueCounts.onOld (acc : GMap Int) (old : Col) : GMap Int × GMap Int :=
  (GMap.subFill 0 acc (valueCounts old), GMap.subFill 0 acc (valueCounts old))

/-- `GroupbySum` (441-457) -/
def GroupbySum : Aggregation (List GRow) (GMap Rat) (GMap Rat) where
  initial _ := []
  onNew acc new := (GMap.addFill 0 acc (groupBy psum new), GMap.addFill 0 acc (groupBy psum new))
def GroupbySum.onOld (acc : GMap Rat) (old : List GRow) : GMap Rat × GMap Rat :=
  (GMap.subFill 0 acc (groupBy psum old), GMap.subFill 0 acc (groupBy psum old))

/-- `GroupbyCount` (460-480) -/
def GroupbyCount : Aggregation (List GRow) (GMap Int) (GMap Int) where
  initial _ := []
  onNew acc new := (GMap.addFill 0 acc (groupBy pcount new), GMap.addFill 0 acc (groupBy pcount new))
def GroupbyCount.onOld (acc : GMap Int) (old : List GRow) : GMap Int × GMap Int :=
  (GMap.subFill 0 acc (groupBy pcount old), GMap.subFill 0 acc (groupBy pcount old))

/-- `GroupbySize` (483-503) -/
def GroupbySize : Aggregation (List GRow) (GMap Int) (GMap Int) where
  initial _ := []
  onNew acc new := (GMap.addFill 0 acc (groupBy psize new), GMap.addFill 0 acc (groupBy psize new))
def GroupbySize.onOld (acc : GMap Int) (old : List GRow) : GMap Int × GMap Int :=
  (GMap.subFill 0 acc (groupBy psize old), GMap.subFill 0 acc (groupBy psize old))

structure GMeanSt where
  totals : GMap Rat
  counts : GMap Int

/-- `totals / counts` on aligned Series: NaN where a side is missing or the count is 0. -/
def gmeanResult (s : GMeanSt) : GMap Val :=
  GMap.align (fun (t : Option Rat) (c : Option Int) => match t, c with
    | some t, some c => odiv t (c : Rat)
    | _, _ => none) s.totals s.counts

/-- `GroupbyMean` (521-547): no `len` guard, no `counts == 0` special case. -/
def GroupbyMean : Aggregation (List GRow) GMeanSt (GMap Val) where
  initial _ := { totals := [], counts := [] }
  onNew acc new :=
    let s : GMeanSt := { totals := GMap.addFill 0 acc.totals (groupBy psum new),
                         counts := GMap.addFill 0 acc.counts (groupBy pcount new) }
    (s, gmeanResult s)
def GroupbyMean.onOld (acc : GMeanSt) (old : List GRow) : GMeanSt × GMap Val :=
  let s : GMeanSt := { totals := GMap.subFill 0 acc.totals (groupBy psum old),
                       counts := GMap.subFill 0 acc.counts (groupBy pcount old) }
  (s, gmeanResult s)

structure GVarSt where
  x : GMap Rat
  x2 : GMap Rat
  n : GMap Int

/-- `GroupbyVar._compute_result` (551-555) on aligned Series (numpy arithmetic, never raises). -/
def gvarResult (ddof : Nat) (s : GVarSt) : GMap Val :=
  GMap.align (fun (x : Option Rat) (q : Option (Option Rat × Option Int)) => match x, q with
    | some x, some (some x2, some n) => varResult ddof x x2 n
    | _, _ => none) s.x (GMap.align (fun a b => (a, b)) s.x2 s.n)

/-- `GroupbyVar` (550-591): guarded by `if len(new)`. -/
def GroupbyVar (ddof : Nat) : Aggregation (List GRow) GVarSt (GMap Val) where
  initial _ := { x := [], x2 := [], n := [] }
  onNew acc new :=
    let s : GVarSt := if new.isEmpty then acc
      else { x := GMap.addFill 0 acc.x (groupBy psum new),
             x2 := GMap.addFill 0 acc.x2 (groupBy psumsq new),
             n := GMap.addFill 0 acc.n (groupBy pcount new) }
    (s, gvarResult ddof s)
def GroupbyVar.onOld (ddof : Nat) (acc : GVarSt) (old : List GRow) : GVarSt × GMap Val :=
  let s : GVarSt := if old.isEmpty then acc
    else { x := GMap.subFill 0 acc.x (groupBy psum old),
           x2 := GMap.subFill 0 acc.x2 (groupBy psumsq old),
           n := GMap.subFill 0 acc.n (groupBy pcount old) }
  (s, gvarResult ddof s)

/-! ## Frames, element-wise expressions, filters, selection, assignment -/

abbrev Row := List (String × Val)
abbrev Frame := List Row

/-- the value of column `c` in a row (NaN if there is no such column; the real code refuses
unknown columns when the graph is built, the generators only use existing names) -/
def Row.get (r : Row) (c : String) : Val := (List.lookup c r).join
/-- `df.assign(c=v)` on one row: replace in place, or append a new last column -/
def Row.set (r : Row) (c : String) (v : Val) : Row :=
  if r.any (fun p => p.1 == c) then r.map (fun p => if p.1 == c then (c, v) else p) else r ++ [(c, v)]
/-- `df[[c1, c2, ...]]` on one row -/
def Row.select (r : Row) (cs : List String) : Row := cs.map fun c => (c, r.get c)

inductive BinOp | add | sub | mul
deriving DecidableEq, Repr
inductive CmpOp | lt | le | gt | ge | eq | ne
deriving DecidableEq, Repr

/-- float arithmetic on exact values: NaN is absorbing -/
def BinOp.ap : BinOp → Val → Val → Val
  | .add, some a, some b => some (a + b)
  | .sub, some a, some b => some (a - b)
  | .mul, some a, some b => some (a * b)
  | _, _, _ => none

/-- comparisons: anything compared with NaN is False, except `!=` which is True -/
def CmpOp.ap : CmpOp → Val → Val → Bool
  | .lt, some a, some b => a < b
  | .le, some a, some b => a ≤ b
  | .gt, some a, some b => b < a
  | .ge, some a, some b => b ≤ a
  | .eq, some a, some b => a == b
  | .ne, some a, some b => a != b
  | .ne, _, _ => true
  | _, _, _ => false

/-- column-valued expressions over one streaming frame; scalars are Python numbers -/
inductive CExpr where
  | col (c : String)                       -- `sdf.c` / `sdf['c']`
  | bin (op : BinOp) (a b : CExpr)         -- both operands streaming
  | binr (op : BinOp) (a : CExpr) (q : Rat) -- `a op q`
  | binl (op : BinOp) (q : Rat) (a : CExpr) -- `q op a`
  | neg (a : CExpr)
deriving Repr

/-- boolean-mask-valued expressions -/
inductive MExpr where
  | cmp (op : CmpOp) (a b : CExpr)
  | cmpr (op : CmpOp) (a : CExpr) (q : Rat)
  | and (a b : MExpr)
  | or (a b : MExpr)
  | not (a : MExpr)
deriving Repr

/-- frame → frame stages -/
inductive Stage where
  | filter (m : MExpr)                 -- `sdf[mask]`
  | assign (c : String) (e : CExpr)    -- `sdf.assign(c=e)` / `sdf[c] = e`
  | select (cs : List String)          -- `sdf[[...]]`
deriving Repr

/-! ### pandas on ONE frame: whole-column operations -/

def negv (v : Val) : Val := v.map (fun a => -a)

def CExpr.eval : CExpr → Frame → Col
  | .col c, fr => fr.map (·.get c)
  | .bin op a b, fr => List.zipWith op.ap (a.eval fr) (b.eval fr)
  | .binr op a q, fr => (a.eval fr).map (fun v => op.ap v (some q))
  | .binl op q a, fr => (a.eval fr).map (fun v => op.ap (some q) v)
  | .neg a, fr => (a.eval fr).map negv

def MExpr.eval : MExpr → Frame → List Bool
  | .cmp op a b, fr => List.zipWith op.ap (a.eval fr) (b.eval fr)
  | .cmpr op a q, fr => (a.eval fr).map (fun v => op.ap v (some q))
  | .and a b, fr => List.zipWith (· && ·) (a.eval fr) (b.eval fr)
  | .or a b, fr => List.zipWith (· || ·) (a.eval fr) (b.eval fr)
  | .not a, fr => (a.eval fr).map (!·)

/-- boolean-mask indexing `df[mask]` -/
def maskFilter (fr : List α) (m : List Bool) : List α :=
  (fr.zip m).filterMap fun p => if p.2 then some p.1 else none

def Stage.eval : Stage → Frame → Frame
  | .filter m, fr => maskFilter fr (m.eval fr)
  | .assign c e, fr => List.zipWith (fun r v => r.set c v) fr (e.eval fr)
  | .select cs, fr => fr.map (·.select cs)

def evalPipe (p : List Stage) (fr : Frame) : Frame := p.foldl (fun f s => s.eval f) fr

/-- `df.groupby(key)[c]`: the (key, value) rows handed to a groupby aggregation; `key` is a
column name (`.col g`) or any Series derived from the same frame -/
def grows (key : CExpr) (c : String) (fr : Frame) : List GRow := (key.eval fr).zip (fr.map (·.get c))

/-! ### streamz: `map_partitions` over streams (a stream = the list of its emissions)

collection.py:9-48: one streaming operand → `stream.map(func, ...)`; several →
`zip(*streams).map(apply_args, func)`.  All operands derive from one source, so every node
emits once per source batch; `List.zip` is the synchronous diamond `zip` (C01). -/

def CExpr.stream : CExpr → List Frame → List Col
  | .col c, src => src.map (fun fr => fr.map (·.get c))
  | .bin op a b, src => ((a.stream src).zip (b.stream src)).map (fun p => List.zipWith op.ap p.1 p.2)
  | .binr op a q, src => (a.stream src).map (fun x => x.map (fun v => op.ap v (some q)))
  | .binl op q a, src => (a.stream src).map (fun x => x.map (fun v => op.ap (some q) v))
  | .neg a, src => (a.stream src).map (fun x => x.map negv)

def MExpr.stream : MExpr → List Frame → List (List Bool)
  | .cmp op a b, src => ((a.stream src).zip (b.stream src)).map (fun p => List.zipWith op.ap p.1 p.2)
  | .cmpr op a q, src => (a.stream src).map (fun x => x.map (fun v => op.ap v (some q)))
  | .and a b, src => ((a.stream src).zip (b.stream src)).map (fun p => List.zipWith (· && ·) p.1 p.2)
  | .or a b, src => ((a.stream src).zip (b.stream src)).map (fun p => List.zipWith (· || ·) p.1 p.2)
  | .not a, src => (a.stream src).map (fun x => x.map (!·))

def Stage.stream : Stage → List Frame → List Frame
  | .filter m, src => (src.zip (m.stream src)).map (fun p => maskFilter p.1 p.2)
  | .assign c e, src => (src.zip (e.stream src)).map (fun p => List.zipWith (fun r v => r.set c v) p.1 p.2)
  | .select cs, src => src.map (fun fr => fr.map (·.select cs))

def streamPipe (p : List Stage) (src : List Frame) : List Frame := p.foldl (fun s st => st.stream s) src

/-- `sdf.groupby(key)[c]` with a streaming-series grouper: `root.stream.zip(grouper.stream)`
(core.py:809-812), each element `(frame, grouper)`; `groupby_accumulator` unpacks the tuple and
`GroupbyAggregation.grouped` (429-438) selects column `c` of the frame. -/
def streamGrows (key : CExpr) (c : String) (src : List Frame) : List (List GRow) :=
  (src.zip (key.stream src)).map (fun p => p.2.zip (p.1.map (·.get c)))

/-- `sdf.groupby('g')[c]` with a column-name grouper: the frame stream itself (core.py:813-816). -/
def streamGrowsCol (g c : String) (src : List Frame) : List (List GRow) :=
  src.map (fun fr => (fr.map (·.get g)).zip (fr.map (·.get c)))

end StreamzVerif.Agg
