/-!
# Model of `rate_limit` and `delay` (streamz/core.py, classes `rate_limit`, `delay`)

Time is counted in ticks (`Nat`); the correspondence harness uses ticks of 1/1024 s so
that every float the Python code computes (`max`, `+`, `-` on multiples of 1/1024) is exact.
Reference counting (`_retain_refs` / `_release_refs`) is not modelled (property C04).

Two levels are given for each node:

* a **functional** model: the delivery time of every element as a function of the arrival
  times (`plan`, `delayPlan`) — this is what the harness diffs against the real timestamps;
* an **event-loop** model (a labelled transition system): clock, pending `gen.sleep` timers /
  the tornado `Queue`, and the environment's actions (`arrive`, `advance` the clock, `fire` a
  due timer, ...).  Several concurrent producers are nothing but several `arrive` actions at the
  same or different clock values; a producer that awaits `emit` is one whose next `arrive` comes
  after the corresponding delivery.  Timers fire exactly when due (timer lateness of a real
  clock is not modelled); which of several due timers fires first is NOT fixed by the model.
-/
namespace StreamzVerif.RateLimit

/-- Instants and durations, in ticks.  (A notation rather than a definition, so that `omega` sees `Nat`.) -/
scoped notation "Time" => Nat

/-! ## rate_limit — functional model -/

/-- `rate_limit.next` ("earliest time the next element may pass"), core.py `__init__`: `self.next = 0`. -/
structure St where
  next : Time
deriving Repr, DecidableEq

/-- Result of the synchronous part of one `update` call. -/
structure Reserve where
  st : St
  /-- `some d` when the coroutine does `yield gen.sleep(d)`, `none` when it emits at once. -/
  sleep : Option Time
deriving Repr, DecidableEq

/-- core.py `rate_limit.update` (a `gen.coroutine`; the `_retain_refs` / `_release_refs` calls around it
are not modelled):
```
now = time()
old_next = self.next
self.next = max(now, self.next) + self.interval
if now < old_next:
    yield gen.sleep(old_next - now)
yield self._emit(x, metadata=metadata)
``` -/
def reserve (I : Time) (s : St) (now : Time) : Reserve :=
  let oldNext := s.next
  let s' : St := { next := max now s.next + I }
  if now < oldNext then { st := s', sleep := some (oldNext - now) }
  else { st := s', sleep := none }

/-- Instant at which `_emit` is called for an element whose `update` started at `now`:
`gen.sleep(d)` resumes the coroutine at `now + d`. -/
def Reserve.due (r : Reserve) (now : Time) : Time :=
  match r.sleep with
  | some d => now + d
  | none => now

/-- Delivery instants `(due, x)` for the arrivals `(now, x)`, positionally (k-th arrival ↦ k-th entry). -/
def plan {α : Type} (I : Time) (s : St) : List (Time × α) → List (Time × α)
  | [] => []
  | (now, x) :: rest =>
    let r := reserve I s now
    (r.due now, x) :: plan I r.st rest

/-- `rate_limit.next` after the arrivals. -/
def after {α : Type} (I : Time) (s : St) : List (Time × α) → St
  | [] => s
  | (now, _) :: rest => after I (reserve I s now).st rest

/-! ## rate_limit — event-loop model -/

/-- The node together with the part of the event loop it uses. -/
structure Sys (α : Type) where
  clock : Time
  st : St
  /-- `update` coroutines suspended in `gen.sleep`: (instant the timer is due, element), in creation order. -/
  timers : List (Time × α)
  /-- history: deliveries `(instant, element)` in the order `_emit` was called. -/
  outs : List (Time × α)
  /-- history: arrivals `(instant, element)` in the order `update` was called. -/
  ins : List (Time × α)
deriving Repr

inductive Act (α : Type) where
  /-- some producer's `emit` reaches `rate_limit.update` at the current instant -/
  | arrive (x : α)
  /-- the loop has nothing to run and moves the clock to `t` (never past a pending timer) -/
  | advance (t : Time)
  /-- the loop runs the `i`-th pending timer, which must be due -/
  | fire (i : Nat)
deriving Repr

def init (α : Type) (c0 : Time) : Sys α :=
  { clock := c0, st := { next := 0 }, timers := [], outs := [], ins := [] }

def step {α : Type} (I : Time) (s : Sys α) : Act α → Option (Sys α)
  | .arrive x =>
    let r := reserve I s.st s.clock
    match r.sleep with
    | some d => some { s with st := r.st, timers := s.timers ++ [(s.clock + d, x)], ins := s.ins ++ [(s.clock, x)] }
    | none => some { s with st := r.st, outs := s.outs ++ [(s.clock, x)], ins := s.ins ++ [(s.clock, x)] }
  | .advance t =>
    if s.clock ≤ t ∧ s.timers.all (fun p => t ≤ p.1) then some { s with clock := t } else none
  | .fire i =>
    match s.timers[i]? with
    | some (d, x) =>
      if d ≤ s.clock then some { s with timers := s.timers.eraseIdx i, outs := s.outs ++ [(s.clock, x)] }
      else none
    | none => none

def run {α : Type} (I : Time) (s : Sys α) : List (Act α) → Option (Sys α)
  | [] => some s
  | a :: as =>
    match step I s a with
    | some s' => run I s' as
    | none => none

/-! ## delay — functional model

core.py `delay`:
```
def cb(self):
    while True:
        last = time()
        x, metadata = yield self.queue.get()
        yield self._emit(x, metadata=metadata)
        self._release_refs(metadata)
        duration = self.interval - (time() - last)
        if duration > 0:
            yield gen.sleep(duration)
def update(self, x, who=None, metadata=None):
    self._retain_refs(metadata)
    return self.queue.put((x, metadata))
```
`last` is read BEFORE waiting on the queue, so an element that finds the coroutine idle is
passed on at once; `interval` only separates the *starts of loop iterations*.  The queue is
unbounded (`Queue()`), so `put` never blocks. -/

/-- The tail of one loop iteration that started at `last`, evaluated at instant `now`:
`duration = self.interval - (time() - last)`; `if duration > 0: yield gen.sleep(duration)`.
`some d` = sleeps for `d`, `none` = loops at once.  (`now ≥ last` always: the clock is monotone.) -/
def pause (I last now : Time) : Option Time :=
  let elapsed := now - last
  if elapsed < I then some (I - elapsed) else none

/-- Instant at which the next loop iteration starts (its `last = time()`). -/
def iterEnd (I last now : Time) : Time :=
  match pause I last now with
  | some d => now + d
  | none => now

/-- Delivery instants for arrivals `(a, cost, x)`, FIFO: `a` = instant of `update`, `cost` = how long
the downstream's awaitable takes (0 = synchronous downstream); `last` = instant the current loop
iteration started. -/
def delayPlan {α : Type} (I : Time) (last : Time) : List (Time × Time × α) → List (Time × α)
  | [] => []
  | (a, c, x) :: rest =>
    let d := max last a          -- `queue.get()` yields the element once both the iteration has started and it is there
    let e := d + c               -- `yield self._emit(...)` returns
    (d, x) :: delayPlan I (iterEnd I last e) rest

/-! ## delay — event-loop model -/

inductive Cb (α : Type) where
  /-- blocked in (or about to run) `queue.get()`; iteration started at `last` -/
  | waiting (last : Time)
  /-- blocked in `yield self._emit(x)` -/
  | emitting (last : Time) (x : α)
  /-- blocked in `gen.sleep(duration)` until the given instant -/
  | sleeping (till : Time)
deriving Repr

structure DSys (α : Type) where
  clock : Time
  queue : List α
  cb : Cb α
  outs : List (Time × α)
  ins : List (Time × α)
deriving Repr

inductive DAct (α : Type) where
  | arrive (x : α)
  | advance (t : Time)
  /-- `queue.get()` resolves with the head of the queue and `_emit` is called -/
  | take
  /-- the downstream's awaitable completes (at once for a synchronous downstream) -/
  | done
  /-- the sleep timer fires; next iteration: `last = time()` -/
  | wake
deriving Repr

def dinit (α : Type) (c0 : Time) : DSys α :=
  { clock := c0, queue := [], cb := .waiting c0, outs := [], ins := [] }

/-- The clock may not move to `t` while something of this node is runnable before `t`: a `get` that
can resolve now (time passes only when the loop has nothing to run), or the sleep timer. -/
def DSys.blocked {α : Type} (s : DSys α) (t : Time) : Bool :=
  match s.cb with
  | .waiting _ => !s.queue.isEmpty && s.clock < t
  | .emitting _ _ => false
  | .sleeping u => u < t

def dstep {α : Type} (I : Time) (s : DSys α) : DAct α → Option (DSys α)
  | .arrive x => some { s with queue := s.queue ++ [x], ins := s.ins ++ [(s.clock, x)] }
  | .advance t =>
    if s.clock ≤ t ∧ s.blocked t = false then some { s with clock := t } else none
  | .take =>
    match s.cb, s.queue with
    | .waiting last, x :: q => some { s with queue := q, cb := .emitting last x, outs := s.outs ++ [(s.clock, x)] }
    | _, _ => none
  | .done =>
    match s.cb with
    | .emitting last _ =>
      match pause I last s.clock with
      | some d => some { s with cb := .sleeping (s.clock + d) }
      | none => some { s with cb := .waiting s.clock }
    | _ => none
  | .wake =>
    match s.cb with
    | .sleeping u => if u ≤ s.clock then some { s with cb := .waiting s.clock } else none
    | _ => none

def drun {α : Type} (I : Time) (s : DSys α) : List (DAct α) → Option (DSys α)
  | [] => some s
  | a :: as =>
    match dstep I s a with
    | some s' => drun I s' as
    | none => none

end StreamzVerif.RateLimit
