/-!
# Event-loop models of `buffer(n)` and `map_async(func, parallelism=p)`

(streamz/core.py, classes `buffer` (l. 1564-1590) and `map_async` (l. 723-838)), each in the context

    producer(s)  ->  N  ->  downstream consumer

at *settled granularity*: an action is something the environment does (a producer calls `emit`, the
consumer's awaitable completes, a user coroutine of `map_async` finishes or fails); the new state is
the state of the node once the event loop has nothing more to run at the current instant.  Wake-up
latency (how many loop iterations a resumed coroutine needs) is abstracted away; what is kept
explicit is every *queueing discipline* the code relies on:

* tornado `Queue(maxsize=n)` (tornado/queues.py): `put` with a waiting getter hands the item to the
  getter; `put` on a full queue appends `(item, future)` to `_putters` (FIFO) and returns the pending
  future; `get` with putters waiting moves the first putter's item into the queue, resolves its
  future and returns the head; `full()` is `maxsize != 0 and qsize() >= maxsize`.
* `asyncio.Queue(maxsize=p)` of *tasks* in `map_async`; `full()` is `maxsize > 0 and qsize() >= maxsize`.
* the insert jobs of `map_async` waiting for a work slot are admitted in arrival order: `_insert_job` holds the
  FIFO-fair `asyncio.Lock` `_insert_lock` around slot wait, `func(x)` and `put` (repair d0c8660; the original
  concurrent polling is modelled at the end of this file).

Every element carries one reference counter (`RefCounter`, core.py l. 68-117).  The counter is an
object that travels with the element's metadata, so the model keeps `cnt` (the counter's `count`)
and `fires` (how often its callback has been scheduled) *inside* the element record.  Elements are
numbered by arrival (`id` = number of earlier arrivals).

`downAsync` says what the downstream consumer is: `true` — `update` of the downstream returns an
awaitable that completes on the action `downDone`, and the consumer holds its own reference to the
element until then (sinks.py `Sink.update`); `false` — the consumer is synchronous: `_emit` returns
`[]`, `yield []` / `if results:` continue at once, no `downDone` action exists.
-/
namespace StreamzVerif.AsyncBuffer

/-! ## Elements and reference counters -/

/-- An element together with its reference counter. -/
structure Item (α : Type) where
  /-- arrival index -/
  id : Nat
  val : α
  /-- `RefCounter.count` -/
  cnt : Int := 0
  /-- number of times `RefCounter.release` has scheduled the completion callback -/
  fires : Nat := 0
deriving Repr, DecidableEq

/-- What the history variables record of an element. -/
def Item.key {α : Type} (it : Item α) : Nat × α := (it.id, it.val)

/-- core.py `RefCounter.retain`: `self.count += n` (n = 1). -/
def Item.retain {α : Type} (it : Item α) : Item α := { it with cnt := it.cnt + 1 }

/-- core.py `RefCounter.release`: `self.count -= n; if self.count <= 0 and self.cb: self.loop.add_callback(self.cb)`. -/
def Item.release {α : Type} (it : Item α) : Item α :=
  { it with cnt := it.cnt - 1, fires := if it.cnt - 1 ≤ 0 then it.fires + 1 else it.fires }

/-- Observable events (what the instrumented pipeline logs). `α` = type of arriving values, `β` = type of emitted values. -/
inductive Ev (α β : Type) where
  /-- the node called `_emit(v)` with the metadata of element `id` -/
  | emit (id : Nat) (v : β)
  | retain (id : Nat)
  | release (id : Nat)
  /-- the completion callback of element `id` was scheduled -/
  | fire (id : Nat)
  /-- the awaitable returned by `update` for element `id` completed -/
  | accept (id : Nat)
  /-- `map_async`: `func(x)` was called for element `id` -/
  | jobstart (id : Nat) (v : α)
  /-- `map_async`: the job of element `id` raised; logged, nothing emitted, nothing released -/
  | joblost (id : Nat)
deriving Repr, DecidableEq

/-- Events of one `release` of `it`. -/
def relEvs {α β γ : Type} (it : Item γ) : List (Ev α β) :=
  Ev.release it.id :: (if it.cnt - 1 ≤ 0 then [Ev.fire it.id] else [])

/-- Events of handing an element to the downstream: `Stream._emit` (core.py l. 444-460) retains once for the
single downstream, calls its `update` (an awaitable consumer retains, sinks.py l. 68-77), releases. -/
def emitEvs {α β γ : Type} (downAsync : Bool) (it : Item γ) (v : β) : List (Ev α β) :=
  [Ev.emit it.id v, Ev.retain it.id] ++ (if downAsync then [Ev.retain it.id] else []) ++
    relEvs (if downAsync then it.retain.retain else it.retain)

/-- The element's counter after that hand-over. -/
def Item.handOver {α : Type} (downAsync : Bool) (it : Item α) : Item α :=
  (if downAsync then it.retain.retain else it.retain).release

/-- The counter of a fresh element after the producer's `_emit` called `N.update` and `update` returned:
producer retains (1), `N.update` retains (2: buffer l. 1582, map_async l. 788), producer releases (1). -/
def Item.enter {α : Type} (id : Nat) (x : α) : Item α :=
  (({ id := id, val := x } : Item α).retain.retain).release

def enterEvs1 {α β : Type} (id : Nat) : List (Ev α β) := [Ev.retain id, Ev.retain id]
def enterEvs2 {α β : Type} (id : Nat) (x : α) : List (Ev α β) :=
  relEvs (({ id := id, val := x } : Item α).retain.retain)

/-- The counter after the consumer finished (`downAsync`: the consumer's own release, sinks.py
`_release_when_done`) and the node released (`self._release_refs(metadata)` after the awaited emission). -/
def Item.finish {α : Type} (downAsync : Bool) (it : Item α) : Item α :=
  (if downAsync then it.release else it).release

def finishEvs {α β γ : Type} (downAsync : Bool) (it : Item γ) : List (Ev α β) :=
  (if downAsync then relEvs it else []) ++ relEvs (if downAsync then it.release else it)

/-! ## buffer(n) -/

structure BCfg where
  /-- `buffer(n)`: `Queue(maxsize=n)`; 0 means unbounded (tornado) -/
  n : Nat
  downAsync : Bool
deriving Repr, DecidableEq

/-- tornado `Queue.full`: `if self.maxsize == 0: return False else: return self.qsize() >= self.maxsize`. -/
def BCfg.full {γ : Type} (c : BCfg) (q : List γ) : Bool := c.n != 0 && decide (c.n ≤ q.length)

/-- State of the coroutine `buffer.cb` at a settled point. -/
inductive Cb (α : Type) where
  /-- suspended in `yield self.queue.get()` (queue empty, a getter is registered) -/
  | idle
  /-- suspended in `yield self._emit(x, metadata=metadata)`: the downstream awaitable is pending -/
  | emitting (it : Item α)
deriving Repr, DecidableEq

def Cb.items {α : Type} : Cb α → List (Item α)
  | .idle => []
  | .emitting it => [it]

structure BSt (α : Type) where
  /-- `Queue._queue` -/
  queue : List (Item α) := []
  /-- `Queue._putters`: items of blocked `put`s, FIFO -/
  putters : List (Item α) := []
  cb : Cb α := .idle
  /-- history: every arrival `(id, value)` -/
  ins : List (Nat × α) := []
  /-- history: every element handed downstream (emission started), in order -/
  outs : List (Nat × α) := []
  /-- history: elements whose emission completed and which the node has released, with their final counters -/
  fin : List (Item α) := []
  /-- ids whose `update` awaitable (the `put` future) has completed, in order of completion -/
  accepted : List Nat := []
  log : List (Ev α α) := []
deriving Repr

/-- `cb` takes `it` and hands it downstream: `yield self._emit(x, metadata=metadata)` (l. 1589). -/
def startEmit {α : Type} (c : BCfg) (s : BSt α) (it : Item α) : BSt α :=
  { s with cb := .emitting (it.handOver c.downAsync),
           outs := s.outs ++ [it.key],
           log := s.log ++ emitEvs c.downAsync it it.val }

/-- A producer's `emit` reaches `buffer.update` (l. 1581-1583): retain, `return self.queue.put((x, metadata))`.
tornado `Queue.put` / `put_nowait`:  a waiting getter receives the item directly (then `cb` resumes and emits);
a full queue makes the producer wait in `_putters`; otherwise the item is queued and the future is done. -/
def arriveP {α : Type} (c : BCfg) (s : BSt α) (x : α) : BSt α :=
  let i := s.ins.length
  let it := Item.enter i x
  let s0 := { s with ins := s.ins ++ [(i, x)], log := s.log ++ enterEvs1 i }
  match s.cb with
  | .idle =>
    startEmit c { s0 with accepted := s0.accepted ++ [i], log := s0.log ++ [Ev.accept i] ++ enterEvs2 i x } it
  | .emitting _ =>
    if c.full s.queue then
      { s0 with putters := s0.putters ++ [it], log := s0.log ++ enterEvs2 i x }
    else
      { s0 with queue := s0.queue ++ [it], accepted := s0.accepted ++ [i], log := s0.log ++ [Ev.accept i] ++ enterEvs2 i x }

/-- `cb` loops: `x, metadata = yield self.queue.get()` — tornado `Queue.get_nowait`: with putters waiting, the
first blocked item enters the queue and its `put` future is resolved, then the head is returned; else the head
if any; else `cb` waits. -/
def nextP {α : Type} (c : BCfg) (s : BSt α) : BSt α :=
  match s.putters with
  | p :: ps =>
    let s1 := { s with putters := ps, accepted := s.accepted ++ [p.id], log := s.log ++ [Ev.accept p.id] }
    match s.queue with
    | [] => startEmit c { s1 with queue := [] } p
    | h :: t => startEmit c { s1 with queue := t ++ [p] } h
  | [] =>
    match s.queue with
    | h :: t => startEmit c { s with queue := t } h
    | [] => { s with cb := .idle }

/-- The downstream awaitable of the current emission completes: the consumer releases its reference, `cb` resumes,
`self._release_refs(metadata)` (l. 1590), and takes the next element. Not enabled while `cb` is idle. -/
def doneP {α : Type} (c : BCfg) (s : BSt α) : BSt α :=
  match s.cb with
  | .idle => s
  | .emitting it =>
    nextP c { s with cb := .idle, fin := s.fin ++ [it.finish c.downAsync], log := s.log ++ finishEvs c.downAsync it }

inductive BAct (α : Type) where
  | arrive (x : α)
  | downDone
deriving Repr, DecidableEq

/-- One settled step.  With a synchronous consumer the emission started by an arrival completes within the same
step (`yield []` does not suspend) and there is no `downDone` action. -/
def bstep {α : Type} (c : BCfg) (s : BSt α) : BAct α → BSt α
  | .arrive x => if c.downAsync then arriveP c s x else doneP c (arriveP c s x)
  | .downDone => if c.downAsync then doneP c s else s

def brun {α : Type} (c : BCfg) (s : BSt α) (acts : List (BAct α)) : BSt α := acts.foldl (bstep c) s

def binit (α : Type) : BSt α := {}

/-! ## map_async(func, parallelism=p) -/

structure MCfg where
  /-- `asyncio.Queue(maxsize=parallelism)`; 0 means unbounded -/
  p : Nat
  downAsync : Bool
deriving Repr, DecidableEq

/-- `asyncio.Queue.full`: `if self._maxsize <= 0: return False else: return self.qsize() >= self._maxsize`. -/
def MCfg.full {γ : Type} (c : MCfg) (q : List γ) : Bool := c.p != 0 && decide (c.p ≤ q.length)

inductive JStat where
  | running | done | failed
deriving Repr, DecidableEq

/-- A started user coroutine (`task = self._create_task(coro)`) with the metadata of its element. -/
structure Job (α : Type) where
  it : Item α
  st : JStat
deriving Repr, DecidableEq

/-- State of the coroutine `work_callback` at a settled point. -/
inductive Worker (α : Type) where
  /-- suspended in `await self.work_queue.get()` -/
  | idle
  /-- suspended in `result = await task`; the task has already been REMOVED from the work queue -/
  | awaiting (it : Item α)
  /-- suspended in `await asyncio.gather(*results)` after `_emit(result)` -/
  | emitting (it : Item α)
deriving Repr, DecidableEq

def Worker.items {α : Type} : Worker α → List (Item α)
  | .idle => []
  | .awaiting it => [it]
  | .emitting it => [it]

structure MSt (α β : Type) where
  /-- `_insert_job` coroutines waiting for a work slot, in arrival order -/
  waiting : List (Item α) := []
  /-- `work_queue`: started jobs in the order they were started -/
  queue : List (Job α) := []
  worker : Worker α := .idle
  ins : List (Nat × α) := []
  /-- history: `(id, f x)` handed downstream, in order -/
  outs : List (Nat × β) := []
  /-- history: jobs the worker is finished with, in order; `true` = result emitted, awaited and released,
  `false` = the job raised (logged, nothing released) -/
  fin : List (Item α × Bool) := []
  /-- ids whose `update` awaitable (the `_insert_job` task) has completed = jobs started, in order -/
  accepted : List Nat := []
  log : List (Ev α β) := []
deriving Repr

/-- `work_callback` obtained the result of `it`'s job: `results = self._emit(result, metadata=metadata)`,
`if results: await asyncio.gather(*results)`, `self._release_refs(metadata)` (l. 819-822). -/
def deliver {α β : Type} (f : α → β) (c : MCfg) (s : MSt α β) (it : Item α) : MSt α β :=
  let s1 := { s with outs := s.outs ++ [(it.id, f it.val)], log := s.log ++ emitEvs c.downAsync it (f it.val) }
  if c.downAsync then { s1 with worker := .emitting (it.handOver true) }
  else { s1 with worker := .idle, fin := s1.fin ++ [((it.handOver false).finish false, true)],
                 log := s1.log ++ finishEvs false (it.handOver false) }

/-- The job of `it` raised: `except Exception as e: logger.exception(e)` — no emission, NO release (l. 814-817;
`stop_on_exception` is left at its default `False`). -/
def lose {α β : Type} (s : MSt α β) (it : Item α) : MSt α β :=
  { s with worker := .idle, fin := s.fin ++ [(it, false)], log := s.log ++ [Ev.joblost it.id] }

/-- One internal move of the node between two settled points, if any is enabled:
* the idle worker takes the head of the work queue (`task, metadata = await self.work_queue.get()`;
  `self.work_queue.task_done()`) — this FREES the slot before the task is awaited — and awaits it
  (a finished task continues at once);
* the first waiting insert job finds `not self.work_queue.full()`, calls `func(x)`, creates the task and
  puts it, all under `async with self._insert_lock` (l. 831-835); its `update` awaitable completes. -/
def settleStep {α β : Type} (f : α → β) (c : MCfg) (s : MSt α β) : Option (MSt α β) :=
  match s.worker, s.queue with
  | .idle, j :: rest =>
    let s1 := { s with queue := rest }
    match j.st with
    | .running => some { s1 with worker := .awaiting j.it }
    | .done => some (deliver f c s1 j.it)
    | .failed => some (lose s1 j.it)
  | _, _ =>
    match s.waiting with
    | w :: ws =>
      if c.full s.queue then none
      else some { s with waiting := ws, queue := s.queue ++ [{ it := w, st := .running }],
                         accepted := s.accepted ++ [w.id], log := s.log ++ [Ev.jobstart w.id w.val, Ev.accept w.id] }
    | [] => none

def settle {α β : Type} (f : α → β) (c : MCfg) : Nat → MSt α β → MSt α β
  | 0, s => s
  | k + 1, s =>
    match settleStep f c s with
    | none => s
    | some s' => settle f c k s'

/-- Every internal move lowers `2 * waiting + queue` by one, so this much fuel reaches a settled state
(`settle_settled` in Proofs/AsyncBuffer.lean). -/
def fuel {α β : Type} (s : MSt α β) : Nat := 2 * s.waiting.length + s.queue.length

/-- `map_async.update` (l. 785-789): create the worker on first use, `self._retain_refs(metadata)`,
`return self._create_task(self._insert_job(x, metadata))`. -/
def arriveM {α β : Type} (s : MSt α β) (x : α) : MSt α β :=
  let i := s.ins.length
  { s with ins := s.ins ++ [(i, x)], waiting := s.waiting ++ [Item.enter i x],
           log := s.log ++ enterEvs1 i ++ enterEvs2 i x }

/-- The running job of element `i` that sits in the work queue changes status. -/
def markQ {α : Type} (i : Nat) (st : JStat) (q : List (Job α)) : List (Job α) :=
  q.map (fun j => if j.it.id = i ∧ j.st = .running then { j with st := st } else j)

/-- The user coroutine of element `i` returns. -/
def jobDoneM {α β : Type} (f : α → β) (c : MCfg) (s : MSt α β) (i : Nat) : MSt α β :=
  match s.worker with
  | .awaiting it => if it.id = i then deliver f c s it else { s with queue := markQ i .done s.queue }
  | _ => { s with queue := markQ i .done s.queue }

/-- The user coroutine of element `i` raises. -/
def jobFailM {α β : Type} (s : MSt α β) (i : Nat) : MSt α β :=
  match s.worker with
  | .awaiting it => if it.id = i then lose s it else { s with queue := markQ i .failed s.queue }
  | _ => { s with queue := markQ i .failed s.queue }

/-- The downstream awaitable of the current emission completes; the worker releases (l. 822). -/
def downDoneM {α β : Type} (c : MCfg) (s : MSt α β) : MSt α β :=
  match s.worker with
  | .emitting it =>
    { s with worker := .idle, fin := s.fin ++ [(it.finish c.downAsync, true)], log := s.log ++ finishEvs c.downAsync it }
  | _ => s

inductive MAct (α : Type) where
  | arrive (x : α)
  /-- the job of element `id` completes — in ANY order relative to the other jobs -/
  | jobDone (id : Nat)
  | jobFail (id : Nat)
  | downDone
deriving Repr, DecidableEq

def mprim {α β : Type} (f : α → β) (c : MCfg) (s : MSt α β) : MAct α → MSt α β
  | .arrive x => arriveM s x
  | .jobDone i => jobDoneM f c s i
  | .jobFail i => jobFailM s i
  | .downDone => downDoneM c s

def mstep {α β : Type} (f : α → β) (c : MCfg) (s : MSt α β) (a : MAct α) : MSt α β :=
  let s1 := mprim f c s a
  settle f c (fuel s1) s1

def mrun {α β : Type} (f : α → β) (c : MCfg) (s : MSt α β) (acts : List (MAct α)) : MSt α β :=
  acts.foldl (mstep f c) s

def minit (α β : Type) : MSt α β := {}

/-! ## map_async as originally written: the slot wait is not FIFO

Before the repair (`async with self._insert_lock:` around slot wait, `func(x)` and `put`), EVERY waiting
`_insert_job` polled `while self.work_queue.full(): await asyncio.sleep(0)` concurrently.  Each poller is one handle
per loop iteration in asyncio's ready queue; the worker's wake-up (which frees the slot) is another handle, whose
position among the pollers depends on when the completion that woke it happened.  The poller that runs first
AFTER the worker in that iteration takes the slot — not necessarily the oldest one (an `emit` issued in the same loop
callback as a job completion puts its poller behind the worker's wake-up, all older pollers in front of it).
The schedule-dependent choice is the parameter `pick` (position in `waiting` of the poller that wins); the repaired
code is the special case `pick = 0` everywhere (`c02_map_async_original_fifo_case` in Props/AsyncBuffer.lean). -/

/-- `settleStep` with the admission choice made by the schedule. -/
def settleStepU {α β : Type} (f : α → β) (c : MCfg) (pick : Nat) (s : MSt α β) : Option (MSt α β) :=
  match s.worker, s.queue with
  | .idle, j :: rest =>
    let s1 := { s with queue := rest }
    match j.st with
    | .running => some { s1 with worker := .awaiting j.it }
    | .done => some (deliver f c s1 j.it)
    | .failed => some (lose s1 j.it)
  | _, _ =>
    match s.waiting.drop pick with
    | w :: _ =>
      if c.full s.queue then none
      else some { s with waiting := s.waiting.eraseIdx pick, queue := s.queue ++ [{ it := w, st := .running }],
                         accepted := s.accepted ++ [w.id], log := s.log ++ [Ev.jobstart w.id w.val, Ev.accept w.id] }
    | [] => none

/-- `picks`: the choices for the successive admissions of this step (FIFO once the list is used up). -/
def settleU {α β : Type} (f : α → β) (c : MCfg) : Nat → List Nat → MSt α β → MSt α β
  | 0, _, s => s
  | k + 1, picks, s =>
    match settleStepU f c (picks.headD 0) s with
    | none => s
    | some s' => settleU f c k (if s'.waiting.length < s.waiting.length then picks.tail else picks) s'

def mstepU {α β : Type} (f : α → β) (c : MCfg) (s : MSt α β) (a : MAct α × List Nat) : MSt α β :=
  let s1 := mprim f c s a.1
  settleU f c (fuel s1) a.2 s1

def mrunU {α β : Type} (f : α → β) (c : MCfg) (s : MSt α β) (acts : List (MAct α × List Nat)) : MSt α β :=
  acts.foldl (mstepU f c) s

end StreamzVerif.AsyncBuffer
