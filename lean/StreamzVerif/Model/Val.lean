/-
Values, errors, metadata and the user-function catalogue shared by the dataflow
models.  Core Lean only.

The catalogue exists on both sides with identical semantics: the Python twins
live in `harness/catalogue.py` (each twin type-checks its argument and raises
exactly the exception class the Lean function returns, so that behaviour on
ill-typed inputs is comparable too).
-/
namespace StreamzVerif

inductive Val
  | int (i : Int) | str (s : String) | tup (l : List Val) | lst (l : List Val) | none
  deriving Repr, Inhabited

mutual
def Val.decEq : (a b : Val) → Decidable (a = b)
  | .int i, .int j => if h : i = j then isTrue (by rw [h]) else isFalse (by intro e; cases e; exact h rfl)
  | .str i, .str j => if h : i = j then isTrue (by rw [h]) else isFalse (by intro e; cases e; exact h rfl)
  | .tup a, .tup b => match Val.decEqList a b with
    | isTrue h => isTrue (by rw [h])
    | isFalse h => isFalse (by intro e; cases e; exact h rfl)
  | .lst a, .lst b => match Val.decEqList a b with
    | isTrue h => isTrue (by rw [h])
    | isFalse h => isFalse (by intro e; cases e; exact h rfl)
  | .none, .none => isTrue rfl
  | .int _, .str _ | .int _, .tup _ | .int _, .lst _ | .int _, .none => isFalse (by intro e; cases e)
  | .str _, .int _ | .str _, .tup _ | .str _, .lst _ | .str _, .none => isFalse (by intro e; cases e)
  | .tup _, .int _ | .tup _, .str _ | .tup _, .lst _ | .tup _, .none => isFalse (by intro e; cases e)
  | .lst _, .int _ | .lst _, .str _ | .lst _, .tup _ | .lst _, .none => isFalse (by intro e; cases e)
  | .none, .int _ | .none, .str _ | .none, .tup _ | .none, .lst _ => isFalse (by intro e; cases e)
def Val.decEqList : (a b : List Val) → Decidable (a = b)
  | [], [] => isTrue rfl
  | [], _ :: _ => isFalse (by intro e; cases e)
  | _ :: _, [] => isFalse (by intro e; cases e)
  | x :: xs, y :: ys => match Val.decEq x y, Val.decEqList xs ys with
    | isTrue h1, isTrue h2 => isTrue (by rw [h1, h2])
    | isFalse h, _ => isFalse (by intro e; cases e; exact h rfl)
    | _, isFalse h => isFalse (by intro e; cases e; exact h rfl)
end
instance : DecidableEq Val := Val.decEq

/-- Exceptions, identified by Python class (what the correspondence compares). -/
inductive Err
  | typeError | valueError | indexError | keyError | outOfFuel
  deriving Repr, DecidableEq, Inhabited

def Err.name : Err → String
  | .typeError => "TypeError" | .valueError => "ValueError" | .indexError => "IndexError"
  | .keyError => "KeyError" | .outOfFuel => "out-of-fuel"

/-- Python truthiness of a value. -/
def Val.truthy : Val → Bool
  | .int i => i != 0
  | .str s => s != ""
  | .tup l => !l.isEmpty
  | .lst l => !l.isEmpty
  | .none => false

mutual
/-- Python hashability: lists are unhashable, a tuple is hashable iff all its members are. -/
def Val.hashable : Val → Bool
  | .lst _ => false
  | .tup l => Val.hashableList l
  | _ => true
def Val.hashableList : List Val → Bool
  | [] => true
  | x :: xs => x.hashable && Val.hashableList xs
end

def Val.ofBool (b : Bool) : Val := .int (if b then 1 else 0)

/-- One metadata dictionary: an identifying tag and optionally a reference counter id. -/
structure MEntry where
  tag : Nat
  ref : Option Nat
  deriving Repr, DecidableEq, Inhabited

abbrev Meta := List MEntry

/-- Unary catalogue. -/
inductive Fn
  | id | inc | dbl | neg | modk (k : Nat) | const (c : Int) | pair | fst | snd | sumTup | len
  | rep (k : Nat) | failIf (k r : Nat) | isEven | gt (k : Int) | truthy | failPred (k r : Nat)
  | bucketNone (k : Nat)
  deriving Repr, DecidableEq, Inhabited

def sumInts : List Val → Except Err Int
  | [] => .ok 0
  | .int i :: t => do let s ← sumInts t; pure (i + s)
  | _ :: _ => .error .typeError

def Fn.eval : Fn → Val → Except Err Val
  | .id, x => .ok x
  | .inc, .int i => .ok (.int (i + 1))
  | .inc, _ => .error .typeError
  | .dbl, .int i => .ok (.int (2 * i))
  | .dbl, _ => .error .typeError
  | .neg, .int i => .ok (.int (-i))
  | .neg, _ => .error .typeError
  | .modk k, .int i => if k = 0 then .error .valueError else .ok (.int (i % (k : Int)))
  | .modk _, _ => .error .typeError
  | .const c, _ => .ok (.int c)
  | .pair, x => .ok (.tup [x, x])
  | .fst, .tup (a :: _) => .ok a
  | .fst, .lst (a :: _) => .ok a
  | .fst, .tup [] => .error .indexError
  | .fst, .lst [] => .error .indexError
  | .fst, _ => .error .typeError
  | .snd, .tup (_ :: b :: _) => .ok b
  | .snd, .lst (_ :: b :: _) => .ok b
  | .snd, .tup _ => .error .indexError
  | .snd, .lst _ => .error .indexError
  | .snd, _ => .error .typeError
  | .sumTup, .tup l => (sumInts l).map .int
  | .sumTup, .lst l => (sumInts l).map .int
  | .sumTup, _ => .error .typeError
  | .len, .tup l => .ok (.int l.length)
  | .len, .lst l => .ok (.int l.length)
  | .len, .str s => .ok (.int s.length)
  | .len, _ => .error .typeError
  | .rep k, x => .ok (.lst (List.replicate k x))
  | .failIf k r, .int i => if k = 0 then .error .valueError
                            else if i % (k : Int) = (r : Int) then .error .valueError else .ok (.int i)
  | .failIf _ _, _ => .error .typeError
  | .isEven, .int i => .ok (Val.ofBool (i % 2 = 0))
  | .isEven, _ => .error .typeError
  | .gt k, .int i => .ok (Val.ofBool (i > k))
  | .gt _, _ => .error .typeError
  | .truthy, x => .ok (Val.ofBool x.truthy)
  | .failPred k r, .int i => if k = 0 then .error .valueError
                              else if i % (k : Int) = (r : Int) then .error .valueError else .ok (Val.ofBool (i % 2 = 0))
  | .failPred _ _, _ => .error .typeError
  -- a key function that tolerates None: None and multiples of k share bucket 0
  | .bucketNone k, .int i => if k = 0 then .error .valueError else .ok (.int (i % (k : Int)))
  | .bucketNone _, .none => .ok (.int 0)
  | .bucketNone _, _ => .error .typeError

/-- Binary catalogue for `accumulate` (`func(state, x)`). -/
inductive Fn2
  | add | max | cnt | addRS | failAdd (k r : Nat) | snoc
  deriving Repr, DecidableEq, Inhabited

def Fn2.eval : Fn2 → Val → Val → Except Err Val
  | .add, .int s, .int x => .ok (.int (s + x))
  | .add, _, _ => .error .typeError
  | .max, .int s, .int x => .ok (.int (if s < x then x else s))
  | .max, _, _ => .error .typeError
  | .cnt, .int s, _ => .ok (.int (s + 1))
  | .cnt, _, _ => .error .typeError
  -- returns_state flavour: new state s + x, result 10 * s + x
  | .addRS, .int s, .int x => .ok (.tup [.int (s + x), .int (10 * s + x)])
  | .addRS, _, _ => .error .typeError
  | .failAdd k r, .int s, .int x => if k = 0 then .error .valueError
                                      else if x % (k : Int) = (r : Int) then .error .valueError else .ok (.int (s + x))
  | .failAdd _ _, _, _ => .error .typeError
  -- state is a tuple that grows: exercises structured state
  | .snoc, .tup l, x => .ok (.tup (l ++ [x]))
  | .snoc, _, _ => .error .typeError

end StreamzVerif
