/-!
# Model of the rolling / cumulative / expanding / ewm accumulators (property C11)

Python sources mirrored here (streamz at the pinned commit, plus the two `fix:` patches of C11):

* `streamz/collection.py:188-209`  `accumulate_partitions` -> `Stream.accumulate(func, start=…, returns_state=True)`
  (`streamz/core.py` `accumulate.update`: `state, result = func(state, x)`; emit `result`).   => `runAcc`
* `streamz/dataframe/core.py:757-770`  `rolling_accumulator`                                    => `rollStep`
* `streamz/dataframe/core.py:413-427`  `_cumulative_accumulator` (cumsum/cumprod/cummin/cummax)  => `cumStep`
* `streamz/dataframe/core.py:641-655`  `Expanding.aggregate` -> `aggregations.window_accumulator`
  (`aggregations.py:280-320`) with `diff_expanding` (`aggregations.py:248-252`)                  => `expStep`
* `streamz/dataframe/aggregations.py:14-120`  `Sum/Count/Mean/Var.on_new`                       => `aggSum` …
* `streamz/dataframe/aggregations.py:151-170` `EWMean` (`result, old_wt, is_first`)              => `ewmOnNew`

A table is a `List` of rows, a batch is a consecutive piece of it, NaN is `none`.
Core Lean only; everything is a small total function.
-/
namespace StreamzVerif.Rolling

/-- `Stream.accumulate(func, start=s, returns_state=True)`: thread the state through the
batches and collect what is emitted for every batch (one emission per batch). -/
def runAcc {σ β γ : Type} (step : σ → β → σ × γ) : σ → List β → σ × List γ
  | s, [] => (s, [])
  | s, b :: bs =>
    let r := step s b
    let rest := runAcc step r.1 bs
    (rest.1, r.2 :: rest.2)

/-- `l[-n:]` for `n > 0`: the last `n` rows (all of them when there are fewer). -/
def lastN {α : Type} (n : Nat) (l : List α) : List α := l.drop (l.length - n)

/-! ## rolling(window).agg() -/
section rolling
variable {α β : Type}

/-- Row-count window `df.rolling(W)`: the window that ends at the last row of the prefix `p`
holds the last `W` rows of `p` (fewer at the start of the table). -/
def selCount (W : Nat) (p : List α) : List α := lastN W p

/-- Time window `df.rolling(Timedelta W)` (closed on the right, index monotonic): the window
that ends at the last row `r` of the prefix `p` holds the rows of `p` whose index lies in
`(index r - W, index r]`. -/
def selTime (time : α → Int) (W : Int) (p : List α) : List α :=
  match p.getLast? with
  | none => []
  | some r => p.filter (fun x => decide (time r - W < time x))

/-- One pass of pandas over `xs` appended to the already seen rows `pre`:
`getattr(df.rolling(window), op)()` yields, for every row, `agg` of the window ending there.
`agg` is the pandas reduction (sum/mean/min/max/median/std/var/count/quantile with its
`min_periods` rule); the model is parametric in it. -/
def rollFrom (sel : List α → List α) (agg : List α → β) (pre : List α) : List α → List β
  | [] => []
  | x :: xs => agg (sel (pre ++ [x])) :: rollFrom sel agg (pre ++ [x]) xs

/-- pandas in one pass over the whole table. -/
def rollWhole (sel : List α → List α) (agg : List α → β) (xs : List α) : List β :=
  rollFrom sel agg [] xs

/-- `df.iloc[-window:]` (core.py:766).  Python's `-0` is `0`, so a window of 0 keeps everything. -/
def carryCount (W : Nat) (df : List α) : List α := if W = 0 then df else lastN W df

/-- `result.index.max()` (NaT, here `none`, for an empty frame). -/
def maxTime (time : α → Int) : List α → Option Int
  | [] => none
  | x :: xs =>
    match maxTime time xs with
    | none => some (time x)
    | some m => some (max (time x) m)

/-- `df.loc[result.index.max() - window:]` (core.py:768): label slicing on the monotonic index
keeps the rows whose index is `>=` the bound; an empty frame stays empty. -/
def carryTime (time : α → Int) (W : Int) (df : List α) : List α :=
  match maxTime time df with
  | none => df
  | some mx => df.filter (fun x => decide (mx - W ≤ time x))

/-- `rolling_accumulator(acc, new, window, op)` (core.py:757-770):
```
df = concat([acc, new]) if len(acc) else new
result = getattr(df.rolling(window), op)()
new_acc = df.iloc[-window:]  |  df.loc[result.index.max() - window:]
result = result.iloc[len(acc):]
``` -/
def rollStep (sel carry : List α → List α) (agg : List α → β) (acc new : List α) : List α × List β :=
  let df := acc ++ new
  let result := rollWhole sel agg df
  (carry df, result.drop acc.length)

/-- `sdf.rolling(W).op()` for an integer window. -/
def rollStepCount (W : Nat) (agg : List α → β) := rollStep (selCount W) (carryCount W) agg
/-- `sdf.rolling('Ws').op()` for a time window. -/
def rollStepTime (time : α → Int) (W : Int) (agg : List α → β) :=
  rollStep (selTime time W) (carryTime time W) agg

end rolling

/-! ## cumsum / cumprod / cummin / cummax -/
section cumulative
variable {α : Type}

/-- pandas `cumsum`/`cumprod`/`cummin`/`cummax` (skipna=True) continued from the running value
`run` (`none`: no valid value seen yet): NaN rows give NaN and leave the running value alone. -/
def cumFrom (f : α → α → α) (run : Option α) : List (Option α) → List (Option α)
  | [] => []
  | none :: xs => none :: cumFrom f run xs
  | some x :: xs =>
    let r := match run with
      | none => x
      | some a => f a x
    some r :: cumFrom f (some r) xs

/-- pandas in one pass: `getattr(df, op)()`. -/
def cumWhole (f : α → α → α) (xs : List (Option α)) : List (Option α) := cumFrom f none xs

/-- The running value after the rows `xs` (the last valid cumulative value). -/
def runVal (f : α → α → α) (run : Option α) : List (Option α) → Option α
  | [] => run
  | none :: xs => runVal f run xs
  | some x :: xs =>
    runVal f (some (match run with
      | none => x
      | some a => f a x)) xs

/-- `result.ffill()` continued from `last`. -/
def ffillFrom (last : Option α) : List (Option α) → List (Option α)
  | [] => []
  | none :: xs => last :: ffillFrom last xs
  | some x :: xs => some x :: ffillFrom (some x) xs

/-- `x.iloc[-1:]`. -/
def lastRow {γ : Type} (l : List γ) : List γ := l.getLast?.toList

/-- `_cumulative_accumulator(state, new, op)` with the fix (`new_state = result.ffill().iloc[-1:]`),
core.py:413-427.  `state` is `()` (here `[]`) or the one carried row. -/
def cumStep (f : α → α → α) (state new : List (Option α)) : List (Option α) × List (Option α) :=
  if new.isEmpty then (state, new)
  else
    let df := state ++ new
    let result := cumWhole f df
    (lastRow (ffillFrom none result), if state.isEmpty then result else result.drop 1)

/-- The accumulator as it is at the pinned commit: `new_state = result.iloc[-1:]`. -/
def cumStepOrig (f : α → α → α) (state new : List (Option α)) : List (Option α) × List (Option α) :=
  if new.isEmpty then (state, new)
  else
    let df := state ++ new
    let result := cumWhole f df
    (lastRow result, if state.isEmpty then result else result.drop 1)

end cumulative

/-! ## expanding().agg() -/
section expanding
variable {α σ ρ : Type}

/-- An `aggregations.Aggregation` as used by an expanding window: `initial(new)` (a zero of the
right shape) and `on_new(acc, new)` (no row ever leaves an expanding window, `on_old` is unused). -/
structure Agg (α σ ρ : Type) where
  initial : σ
  onNew : σ → List α → σ × ρ

/-- `window_accumulator(acc, new, diff=diff_expanding, agg=agg)` (aggregations.py:309-320):
```
if acc is None: acc = {'dfs': [], 'state': agg.initial(new)}
dfs, old = diff_expanding(dfs, new)        # appends `new` when non-empty, old = []
state, result = agg.on_new(state, new)
``` -/
def expStep (A : Agg α σ ρ) (acc : Option (List (List α) × σ)) (new : List α) :
    Option (List (List α) × σ) × ρ :=
  let cur := acc.getD ([], A.initial)
  let dfs := if new.isEmpty then cur.1 else cur.1 ++ [new]
  let r := A.onNew cur.2 new
  (some (dfs, r.1), r.2)

/-- The tables seen after each batch: `[d ++ b₁, d ++ b₁ ++ b₂, …]`. -/
def prefixes (d : List α) : List (List α) → List (List α)
  | [] => []
  | b :: bs => (d ++ b) :: prefixes (d ++ b) bs

end expanding

/-- Valid (non-NaN) cells of a column. -/
def valid (l : List (Option Rat)) : List Rat := l.filterMap id
/-- `x.sum()` (skipna). -/
def sumR (l : List Rat) : Rat := l.foldr (· + ·) 0
/-- `(x ** 2).sum()`. -/
def sumSqR (l : List Rat) : Rat := (l.map (fun x => x * x)).foldr (· + ·) 0

/-- `Sum.on_new`: `acc + new.sum() if len(new) else acc`. -/
def aggSum : Agg (Option Rat) Rat Rat where
  initial := 0
  onNew acc new :=
    let r := if new.isEmpty then acc else acc + sumR (valid new)
    (r, r)

/-- `Count.on_new`: `acc + new.count()`. -/
def aggCount : Agg (Option Rat) Nat Nat where
  initial := 0
  onNew acc new := (acc + (valid new).length, acc + (valid new).length)

/-- `totals / counts`, NaN for `0 / 0`. -/
def meanOf (totals : Rat) (counts : Nat) : Option Rat :=
  if counts = 0 then none else some (totals / counts)

/-- `Mean.on_new`: `totals / counts` of everything seen, NaN while `counts` is 0.  This is the code path
for the columns of a frame (`counts` is a Series, never substituted) and, for a single column, the
behaviour with the `fix:` of the zero-count substitute (at the pinned commit the scalar path stores
`counts = 1`, the defect shared with C06/C07 that the check reports as `expanding-mean-zero-count`). -/
def aggMean : Agg (Option Rat) (Rat × Nat) (Option Rat) where
  initial := (0, 0)
  onNew acc new :=
    let t := if new.isEmpty then acc.1 else acc.1 + sumR (valid new)
    let c := if new.isEmpty then acc.2 else acc.2 + (valid new).length
    ((t, c), meanOf t c)

/-- `Var._compute_result(x, x2, n)`: `(x2/n - (x/n)**2) * n / (n - ddof)`; NaN when `n = 0`
or `n = ddof` (floating point `0/0`). -/
def varOf (ddof : Nat) (x x2 : Rat) (n : Nat) : Option Rat :=
  if n = 0 ∨ n ≤ ddof then none
  else
    let r := x2 / n - (x / n) * (x / n)
    some (if ddof = 0 then r else r * n / ((n : Rat) - ddof))

/-- `Var.on_new`. -/
def aggVar (ddof : Nat) : Agg (Option Rat) (Rat × Rat × Nat) (Option Rat) where
  initial := (0, 0, 0)
  onNew acc new :=
    let x := if new.isEmpty then acc.1 else acc.1 + sumR (valid new)
    let x2 := if new.isEmpty then acc.2.1 else acc.2.1 + sumSqR (valid new)
    let n := if new.isEmpty then acc.2.2 else acc.2.2 + (valid new).length
    ((x, x2, n), varOf ddof x x2 n)

/-! ## ewm(com).mean() -/

/-- State of `EWMean`: `result` (a one-row frame; `none` = the empty frame `new.iloc[:1]` of an
empty batch), `old_wt`, `is_first`. -/
structure EwmSt where
  result : Option Rat
  oldWt : Rat
  isFirst : Bool
deriving DecidableEq, Repr

/-- The loop body of `EWMean.on_new` over the rows `xs` (`q = old_wt_factor = 1 - alpha`, `new_wt = 1`):
```
old_wt *= q; result = (old_wt * result + 1 * x) / (old_wt + 1); old_wt += 1
```
Arithmetic with the empty frame stays empty. -/
def ewmLoop (q : Rat) : Option Rat × Rat → List Rat → Option Rat × Rat
  | s, [] => s
  | (r, w), x :: xs =>
    ewmLoop q (r.map (fun r => (w * q * r + 1 * x) / (w * q + 1)), w * q + 1) xs

/-- `EWMean.initial(new)` = `(new.iloc[:1], 1, True)`. -/
def ewmInitial (new : List Rat) : EwmSt := { result := new.head?, oldWt := 1, isFirst := true }

/-- `EWMean.on_new` with the fix:
```
result, old_wt, is_first = acc
if is_first: result = new.iloc[:1]
for i in range(int(is_first), len(new)): …
return (result, old_wt, is_first and len(new) == 0), result
``` -/
def ewmOnNew (q : Rat) (st : EwmSt) (new : List Rat) : EwmSt × Option Rat :=
  let r0 := if st.isFirst then new.head? else st.result
  let rows := if st.isFirst then new.drop 1 else new
  let s := ewmLoop q (r0, st.oldWt) rows
  ({ result := s.1, oldWt := s.2, isFirst := st.isFirst && new.isEmpty }, s.1)

/-- `EWMean.on_new` at the pinned commit: `is_first` is cleared unconditionally and `result`
is whatever `initial` took from the very first batch. -/
def ewmOnNewOrig (q : Rat) (st : EwmSt) (new : List Rat) : EwmSt × Option Rat :=
  let rows := if st.isFirst then new.drop 1 else new
  let s := ewmLoop q (st.result, st.oldWt) rows
  ({ result := s.1, oldWt := s.2, isFirst := false }, s.1)

/-- `window_accumulator` around an `EWMean` (`acc is None` -> `agg.initial(new)`; `dfs` as in `expStep`). -/
def ewmStepWith (onNew : Rat → EwmSt → List Rat → EwmSt × Option Rat) (q : Rat)
    (acc : Option (List (List Rat) × EwmSt)) (new : List Rat) :
    Option (List (List Rat) × EwmSt) × Option Rat :=
  let cur := acc.getD ([], ewmInitial new)
  let dfs := if new.isEmpty then cur.1 else cur.1 ++ [new]
  let r := onNew q cur.2 new
  (some (dfs, r.1), r.2)

def ewmStep := ewmStepWith ewmOnNew
def ewmStepOrig := ewmStepWith ewmOnNewOrig

/-- `Σ_{i} q^i · x_{t-i}` over the rows listed newest first (Horner form). -/
def ewmNum (q : Rat) : List Rat → Rat
  | [] => 0
  | x :: older => x + q * ewmNum q older
/-- `Σ_{i<n} q^i`. -/
def ewmDen (q : Rat) : Nat → Rat
  | 0 => 0
  | n + 1 => 1 + q * ewmDen q n

/-- pandas `df.ewm(com).mean()` (adjust=True) at the last row of the NaN-free table `xs`:
the weighted mean with weights `(1-alpha)^i` on the row `i` steps back; nothing for an empty table. -/
def ewmAt (q : Rat) (xs : List Rat) : Option Rat :=
  if xs.isEmpty then none else some (ewmNum q xs.reverse / ewmDen q xs.length)

/-! ## ewm(com).mean() on a column WITH NaN cells (the recorded finding `ewm-nan-unsupported`)

`EWMean.on_new` (aggregations.py:158-166) has no NaN handling: the loop body
```
old_wt *= q; result = (old_wt * result + 1 * new.iloc[i]) / (old_wt + 1); old_wt += 1
```
runs in IEEE arithmetic on the one-row frame `result`, column by column, so a NaN cell of `new.iloc[i]`
(or a NaN `result`, e.g. `new.iloc[:1]` of a table that starts with NaN) makes that column of `result` NaN,
and NaN stays NaN.  `old_wt` is a python scalar shared by all columns: it is multiplied by `q` and
incremented for EVERY row, NaN or not.  (Observed on the real code: `[1, NaN, 3]`, alpha = 1/2 emits
`1, NaN, NaN` with `old_wt = 1, 3/2, 7/4`.)

Cells are `Option Rat` (`none` = NaN); a one-row frame of one column is `Option (Option Rat)`:
`none` = the empty frame, `some none` = a row holding NaN. -/

/-- State of `EWMean` for one column that may hold NaN. -/
structure EwmNanSt where
  result : Option (Option Rat)
  oldWt : Rat
  isFirst : Bool
deriving DecidableEq, Repr

/-- `(old_wt * result + 1 * x) / (old_wt + 1)` on one cell, with `wq` = the already decayed `old_wt`;
NaN in, NaN out. -/
def ewmCell (wq : Rat) (r x : Option Rat) : Option Rat :=
  match r, x with
  | some r, some x => some ((wq * r + 1 * x) / (wq + 1))
  | _, _ => none

/-- The loop body of `EWMean.on_new` over rows that may be NaN.  The weight does not look at the cell. -/
def ewmLoopNan (q : Rat) : Option (Option Rat) × Rat → List (Option Rat) → Option (Option Rat) × Rat
  | s, [] => s
  | (r, w), x :: xs => ewmLoopNan q (r.map (fun r => ewmCell (w * q) r x), w * q + 1) xs

/-- `EWMean.initial(new)` = `(new.iloc[:1], 1, True)`. -/
def ewmInitialNan (new : List (Option Rat)) : EwmNanSt := { result := new.head?, oldWt := 1, isFirst := true }

/-- `EWMean.on_new` as it is in the tree (with the `is_first` fix), on a column that may hold NaN. -/
def ewmOnNewNan (q : Rat) (st : EwmNanSt) (new : List (Option Rat)) : EwmNanSt × Option (Option Rat) :=
  let r0 := if st.isFirst then new.head? else st.result
  let rows := if st.isFirst then new.drop 1 else new
  let s := ewmLoopNan q (r0, st.oldWt) rows
  ({ result := s.1, oldWt := s.2, isFirst := st.isFirst && new.isEmpty }, s.1)

/-- `window_accumulator` around `EWMean` (as `ewmStepWith`), cells may be NaN. -/
def ewmStepNan (q : Rat) (acc : Option (List (List (Option Rat)) × EwmNanSt)) (new : List (Option Rat)) :
    Option (List (List (Option Rat)) × EwmNanSt) × Option (Option Rat) :=
  let cur := acc.getD ([], ewmInitialNan new)
  let dfs := if new.isEmpty then cur.1 else cur.1 ++ [new]
  let r := ewmOnNewNan q cur.2 new
  (some (dfs, r.1), r.2)

/-- The column holds a NaN cell. -/
def hasNan (l : List (Option Rat)) : Bool := l.any Option.isNone
/-- NaN cells replaced by 0 (any number would do: the weights never look at the cell). -/
def fillNan (l : List (Option Rat)) : List Rat := l.map (fun x => x.getD 0)
/-- `v`, or NaN when `b`. -/
def tagNan (b : Bool) (v : Rat) : Option Rat := if b then none else some v

/-- What streamz emits after the rows `t` of a column (theorem `ewm_nan_model_characterised`): nothing while
no row has been seen, NaN as soon as one NaN cell has been seen, pandas' value otherwise. -/
def ewmStreamzNanAt (q : Rat) (t : List (Option Rat)) : Option (Option Rat) :=
  if t.isEmpty then none else if hasNan t then some none else (ewmAt q (valid t)).map some

/-- `Σ q^i · x_{t-i}` over the VALID cells, rows listed newest first (Horner form): a NaN cell
contributes nothing but the older rows still move one step back. -/
def ewmNumNan (q : Rat) : List (Option Rat) → Rat
  | [] => 0
  | none :: older => q * ewmNumNan q older
  | some x :: older => x + q * ewmNumNan q older
/-- `Σ q^i` over the positions `i` (steps back) of the valid cells. -/
def ewmDenNan (q : Rat) : List (Option Rat) → Rat
  | [] => 0
  | none :: older => q * ewmDenNan q older
  | some _ :: older => 1 + q * ewmDenNan q older

/-- The weighted mean over the rows `r` listed newest first; NaN when there is no row. -/
def ewmValNan (q : Rat) (r : List (Option Rat)) : Option Rat :=
  if r.isEmpty then none else some (ewmNumNan q r / ewmDenNan q r)

/-- pandas `df.ewm(alpha).mean()` (adjust=True, ignore_na=False, min_periods=0) at the last row of the
table `xs`, in the textbook form: `Σ_{valid i ≤ t} q^(t-i) x_i / Σ_{valid i ≤ t} q^(t-i)`, NaN while no valid
cell has been seen, nothing for an empty table.  (For `q = 0`, i.e. alpha = 1, and a NaN last row this
reads `0/0`; pandas then repeats the previous value, see `ewmAtNan`.) -/
def ewmAtNanRaw (q : Rat) (xs : List (Option Rat)) : Option (Option Rat) :=
  if xs.isEmpty then none
  else if (valid xs).isEmpty then some none
  else some (some (ewmNumNan q xs.reverse / ewmDenNan q xs.reverse))

/-- pandas `df.ewm(alpha).mean()` at the last row of `xs`, exact for every `q ≥ 0`: a NaN row repeats the
value of the row before it (pandas leaves `weighted` alone and only decays `old_wt`), so the value is the
weighted mean taken at the last valid row.  Equal to `ewmAtNanRaw` whenever `q ≠ 0`
(theorem `ewm_nan_spec_weighted_mean`). -/
def ewmAtNan (q : Rat) (xs : List (Option Rat)) : Option (Option Rat) :=
  if xs.isEmpty then none else some (ewmValNan q (xs.reverse.dropWhile Option.isNone))

/-- The one-pass column: the value at every row. -/
def ewmWholeNan (q : Rat) (pre : List (Option Rat)) : List (Option Rat) → List (Option (Option Rat))
  | [] => []
  | x :: xs => ewmAtNan q (pre ++ [x]) :: ewmWholeNan q (pre ++ [x]) xs

/-! ## concrete pandas window reductions (used by the driver; the theorems hold for any `agg`) -/

structure Row where
  t : Int
  v : Option Int
deriving DecidableEq, Repr

def validI (w : List Row) : List Int := w.filterMap (·.v)
def sumI (l : List Int) : Int := l.foldl (· + ·) 0
def insertSorted (x : Int) : List Int → List Int
  | [] => [x]
  | y :: ys => if x ≤ y then x :: y :: ys else y :: insertSorted x ys
def sortI (l : List Int) : List Int := l.foldr insertSorted []
def minI (l : List Int) : Option Int := (sortI l).head?
def maxI (l : List Int) : Option Int := (sortI l).getLast?
def meanI (l : List Int) : Rat := (sumI l : Rat) / (l.length : Rat)
/-- Σ (x - mean)² / (n - ddof) -/
def varI (ddof : Nat) (l : List Int) : Rat :=
  let m := meanI l
  ((l.map (fun (x : Int) => ((x : Rat) - m) * ((x : Rat) - m))).foldl (· + ·) (0 : Rat)) / ((l.length : Rat) - ddof)
/-- linear-interpolation quantile of a sorted non-empty list -/
def quantI (q : Rat) (l : List Int) : Rat :=
  let s := sortI l
  let pos := q * ((s.length : Rat) - 1)
  let lo := pos.floor.toNat
  let a := (s.getD lo 0 : Rat)
  let b := (s.getD (lo + 1) (s.getD lo 0) : Rat)
  a + (b - a) * (pos - (lo : Rat))

/-- pandas `Rolling.<name>()` on one window with `min_periods = minp`
(`window` for integer windows, 1 for time windows). -/
def winAgg (name : String) (minp : Nat) (q : Rat) (w : List Row) : Option Rat :=
  let xs := validI w
  let n := xs.length
  match name with
  | "count" => if w.length < minp then none else some (n : Rat)
  | "sum" => if n < minp then none else some (sumI xs : Rat)
  | "mean" => if n < minp ∨ n = 0 then none else some (meanI xs)
  | "min" => if n < minp then none else (minI xs).map (fun x => (x : Rat))
  | "max" => if n < minp then none else (maxI xs).map (fun x => (x : Rat))
  | "median" => if n < minp ∨ n = 0 then none else some (quantI (1 / 2) xs)
  | "quantile" => if n < minp ∨ n = 0 then none else some (quantI q xs)
  | "var" => if n < minp ∨ n ≤ 1 then none else some (varI 1 xs)
  | "var0" => if n < minp ∨ n = 0 then none else some (varI 0 xs)      -- `var(ddof=0)` / `std(ddof=0)`
  | "var2" => if n < minp ∨ n ≤ 2 then none else some (varI 2 xs)      -- `var(ddof=2)`
  | _ => none

end StreamzVerif.Rolling
