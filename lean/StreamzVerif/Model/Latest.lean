/-
Model of `streamz.core.latest` (core.py, class `latest`) as a labelled transition
system.  Core Lean only (no Mathlib) so that the driver can import it.

The wake-up mechanism is kept explicit, because it *is* the property: `update`
does not wake the forwarding coroutine directly, it queues a callback
`loop.add_callback(self.condition.notify)`; tornado's `Condition.notify()` wakes
one waiter if there is one and otherwise does nothing (the notification is not
remembered); a woken coroutine does not run at once, its resumption is one more
handle of the event loop.  Arrivals can therefore fall between a notify callback
and the resumption, while the consumer is busy, etc.

Two models live here.

* `StreamzVerif.Latest` — the code WITH fix-1 ("latest loses or duplicates
  deliveries when arrivals race the consumer"):

      def update(self, x, who=None, metadata=None):
          ...reference bookkeeping (not modelled, see C04)...
          self.next = [x]                                   # arrive: fill slot
          self.next_metadata = metadata
          self.loop.add_callback(self.condition.notify)     # arrive: pending += 1

      @gen.coroutine
      def cb(self):
          while True:
              while not self.next:                          # resume, slot empty
                  yield self.condition.wait()               #   -> waiting
              [x], self.next = self.next, []                # resume, slot full: take
              ...
              yield self._emit(x, metadata)                 #   -> emitting x
              ...                                           # consumerDone -> woken

* `StreamzVerif.Latest.Orig` — the mechanism of the unchanged tree
  (core.py 2027-2041), kept as documentation of what the fix repairs:

      def update(self, x, who=None, metadata=None):
          ...
          self.next = [x]
          self.next_metadata = metadata
          self.loop.add_callback(self.condition.notify)

      @gen.coroutine
      def cb(self):
          while True:
              yield self.condition.wait()                   # unconditional wait
              [x] = self.next                               # slot is read, never emptied
              yield self._emit(x, self.next_metadata)

`arrive` is enabled in every state.  In particular it may follow a `resume` that started a
delivery while the coroutine is still inside `self._emit(x, …)`: a consumer that itself emits
into the upstream of `latest` during the call that hands it `x` (re-entrant arrival, feedback
cycle).  That is why the order inside `resume` matters and is modelled as one atomic step:
the slot is emptied BEFORE the delivery starts, so the re-entrant `update` finds an empty slot
and what it writes is not wiped afterwards.

Arrivals are numbered 1, 2, 3, … in order of arrival (`arrived` is the number of
arrivals so far, hence also the index of the newest one); the payload of arrival
`i` plays no role in the mechanism.  `delivered` is the consumer's delivery log,
oldest first.
-/
namespace StreamzVerif.Latest

/-- State of the forwarding coroutine `cb`. -/
inductive Co where
  /-- suspended in `yield self.condition.wait()`: registered as a waiter -/
  | waiting
  /-- runnable: its resumption handle is queued on the loop (after a `notify`
  reached it, after the consumer's awaitable completed, or at start-up); when it
  runs it re-evaluates `while not self.next` -/
  | woken
  /-- suspended in `yield self._emit(x, …)` for arrival `tok`: the consumer is busy -/
  | emitting (tok : Nat)
  deriving DecidableEq, Repr

structure St where
  /-- `self.next`: `[]` ↦ `none`, `[x]` ↦ `some (index of x)` -/
  slot : Option Nat
  /-- queued, not yet run `condition.notify` callbacks -/
  pending : Nat
  co : Co
  /-- number of arrivals so far = index of the newest arrival -/
  arrived : Nat
  /-- delivery log of the consumer, oldest first -/
  delivered : List Nat
  deriving DecidableEq, Repr

inductive Act where
  /-- `update(x)` is called (an upstream emit) -/
  | arrive
  /-- the loop runs one queued `condition.notify` callback -/
  | runNotify
  /-- the loop runs the coroutine's queued resumption -/
  | resume
  /-- the consumer's awaitable completes (the downstream becomes free) -/
  | consumerDone
  deriving DecidableEq, Repr

/-- `__init__`: empty slot, `loop.add_callback(self.cb)` queues the first run of `cb`. -/
def init : St := { slot := none, pending := 0, co := .woken, arrived := 0, delivered := [] }

/-- One transition; `none` = the action is not enabled in this state. -/
def step (s : St) : Act → Option St
  | .arrive =>
    some { s with slot := some (s.arrived + 1), arrived := s.arrived + 1, pending := s.pending + 1 }
  | .runNotify =>
    if s.pending = 0 then none
    else some { s with pending := s.pending - 1,
                       co := match s.co with
                         | .waiting => .woken      -- wakes the one waiter
                         | c => c }                -- nobody waits: nothing happens
  | .resume =>
    match s.co with
    | .woken =>
      match s.slot with
      | some i => some { s with slot := none, co := .emitting i, delivered := s.delivered ++ [i] }
      | none => some { s with co := .waiting }
    | _ => none
  | .consumerDone =>
    match s.co with
    | .emitting _ => some { s with co := .woken }
    | _ => none

/-- Run an action sequence; `none` = the sequence is not accepted by the step relation. -/
def run (s : St) : List Act → Option St
  | [] => some s
  | a :: as => (step s a).bind (fun s' => run s' as)

/-- No internal action (one the event loop performs by itself) is enabled. -/
def Quiescent (s : St) : Prop := step s .runNotify = none ∧ step s .resume = none

/-- The consumer is not busy (there is no delivery whose awaitable is outstanding). -/
def ConsumerFree (s : St) : Prop := step s .consumerDone = none

instance (s : St) : Decidable (Quiescent s) := by unfold Quiescent; exact inferInstance
instance (s : St) : Decidable (ConsumerFree s) := by unfold ConsumerFree; exact inferInstance

/-- Termination measure for arrival-free runs. -/
def weight (s : St) : Nat :=
  2 * s.pending + (if s.slot.isSome then 2 else 0) +
    (match s.co with | .waiting => 0 | .woken => 1 | .emitting _ => 2)

/-! ## The original mechanism (unchanged tree) -/
namespace Orig

inductive Co where
  | waiting
  /-- a `notify` reached the waiter; on resumption: `[x] = self.next; yield self._emit(x)` -/
  | woken
  | emitting (tok : Nat)
  /-- the consumer's awaitable completed (or `cb` has not started yet); on
  resumption: back to `yield self.condition.wait()` — unconditionally -/
  | finished
  deriving DecidableEq, Repr

structure St where
  slot : Option Nat
  pending : Nat
  co : Co
  arrived : Nat
  delivered : List Nat
  deriving DecidableEq, Repr

def init : St := { slot := none, pending := 0, co := .finished, arrived := 0, delivered := [] }

def step (s : St) : Act → Option St
  | .arrive =>
    some { s with slot := some (s.arrived + 1), arrived := s.arrived + 1, pending := s.pending + 1 }
  | .runNotify =>
    if s.pending = 0 then none
    else some { s with pending := s.pending - 1,
                       co := match s.co with
                         | .waiting => .woken
                         | c => c }
  | .resume =>
    match s.co with
    | .woken =>
      match s.slot with
      | some i => some { s with co := .emitting i, delivered := s.delivered ++ [i] }  -- slot kept
      | none => none     -- `[x] = []` raises; unreachable (a notify follows an arrival)
    | .finished => some { s with co := .waiting }
    | _ => none
  | .consumerDone =>
    match s.co with
    | .emitting _ => some { s with co := .finished }
    | _ => none

def run (s : St) : List Act → Option St
  | [] => some s
  | a :: as => (step s a).bind (fun s' => run s' as)

def Quiescent (s : St) : Prop := step s .runNotify = none ∧ step s .resume = none
def ConsumerFree (s : St) : Prop := step s .consumerDone = none

instance (s : St) : Decidable (Quiescent s) := by unfold Quiescent; exact inferInstance
instance (s : St) : Decidable (ConsumerFree s) := by unfold ConsumerFree; exact inferInstance

end Orig

end StreamzVerif.Latest
