/-
Model of `streamz.sources.from_textfile._run` and `streamz.sources.filenames._run`
(sources.py).  Core Lean only (no Mathlib) so that the driver can import it.

from_textfile._run:
    line = self.file.read()
    if line:
        self.buffer = self.buffer + line
        if self.delimiter in self.buffer:
            parts = self.buffer.split(self.delimiter)
            self.buffer = parts.pop(-1)
            for part in parts:
                await asyncio.gather(*self._emit(part + self.delimiter))
    else:
        await asyncio.sleep(self.poll_interval)

Text is `List Char` (the decoded character stream handed over by `file.read()`).
-/
namespace StreamzVerif.TextFile

abbrev Text := List Char

/-- Leftmost occurrence of `d` in `t`: `(before, after)`.  This is what both
`d in t` and the first step of `t.split(d)` compute. -/
def cut (d : Text) : Text → Option (Text × Text)
  | [] => none
  | c :: t =>
    if d.isPrefixOf (c :: t) then some ([], (c :: t).drop d.length)
    else match cut d t with
      | none => none
      | some (b, a) => some (c :: b, a)

theorem cut_sound {d t b a : Text} (h : cut d t = some (b, a)) : t = b ++ d ++ a := by
  induction t generalizing b a with
  | nil => simp [cut] at h
  | cons c t ih =>
    unfold cut at h
    split at h
    · next hp =>
      simp only [Option.some.injEq, Prod.mk.injEq] at h
      obtain ⟨rfl, rfl⟩ := h
      have := List.isPrefixOf_iff_prefix.mp hp
      obtain ⟨r, hr⟩ := this
      rw [← hr]; simp
    · split at h
      · simp at h
      · next b' a' hc =>
        simp only [Option.some.injEq, Prod.mk.injEq] at h
        obtain ⟨rfl, rfl⟩ := h
        rw [ih hc]; simp

theorem cut_length {d t b a : Text} (hd : d ≠ []) (h : cut d t = some (b, a)) :
    a.length < t.length := by
  have := cut_sound h
  have hl : 0 < d.length := List.length_pos_iff.mpr hd
  rw [this]; simp; omega

/-- Python's `t.split(d)` for a non-empty separator: cut at the leftmost
occurrence, continue after it.  For `d = []` Python raises `ValueError`; the
model returns `[t]` there and every theorem carries the guard `d ≠ []`. -/
def split (d : Text) (t : Text) : List Text :=
  if hd : d = [] then [t] else
  match h : cut d t with
  | none => [t]
  | some (b, a) => b :: split d a
termination_by t.length
decreasing_by exact cut_length hd h

/-- `d in t` -/
def contains (d t : Text) : Bool := (cut d t).isSome

structure St where
  buffer : Text
deriving Repr

/-- One `_run` with a non-empty read `chunk`: new state and the emitted records. -/
def feed (d : Text) (s : St) (chunk : Text) : St × List Text :=
  let buf := s.buffer ++ chunk
  if contains d buf then
    let parts := split d buf
    ({ buffer := parts.getLast?.getD [] }, parts.dropLast.map (· ++ d))
  else
    ({ buffer := buf }, [])

/-- A read during which the consumer raises on the `k`-th record of this read (0-based): the buffer has already been
set to the unterminated tail (`self.buffer = parts.pop(-1)` precedes the emit loop), the records up to and including
the failing one have been handed over, the remaining records of this read are gone with the local `parts` list. -/
def feedFail (d : Text) (s : St) (chunk : Text) (k : Nat) : St × List Text :=
  let r := feed d s chunk
  (r.1, r.2.take (k + 1))

/-- A poll that reads nothing (`line == ''`) sleeps and changes nothing; a
read of a non-empty chunk feeds it. -/
def poll (d : Text) (s : St) (chunk : Text) : St × List Text :=
  if chunk.isEmpty then (s, []) else feed d s chunk

/-- Run over a list of reads, accumulating emissions. -/
def run (d : Text) : St → List Text → St × List Text
  | s, [] => (s, [])
  | s, c :: cs =>
    let (s1, e1) := poll d s c
    let (s2, e2) := run d s1 cs
    (s2, e1 ++ e2)

/-! ### filenames

    filenames = set(glob(self.path)); new = filenames - self.seen
    for fn in sorted(new): self.seen.add(fn); emit(fn)

Paths are modelled as `Nat` (the harness uses zero-padded names so that string
order and numeric order agree). -/

def insertSorted (x : Nat) : List Nat → List Nat
  | [] => [x]
  | y :: ys => if x < y then x :: y :: ys else if x = y then y :: ys else y :: insertSorted x ys

/-- `sorted(set(l))` -/
def sortDedup (l : List Nat) : List Nat := l.foldr insertSorted []

structure FSt where
  seen : List Nat
deriving Repr

def fpoll (s : FSt) (listing : List Nat) : FSt × List Nat :=
  let new := sortDedup (listing.filter (fun x => !s.seen.contains x))
  ({ seen := s.seen ++ new }, new)

/-- A poll during which the consumer raises on path `bad`: the loop `for fn in sorted(new): seen.add(fn); emit(fn)`
stops there, so exactly the paths up to and including `bad` are marked seen and handed over. -/
def fpollFail (s : FSt) (listing : List Nat) (bad : Nat) : FSt × List Nat :=
  let new := sortDedup (listing.filter (fun x => !s.seen.contains x))
  let k := new.idxOf bad
  let out := if k < new.length then new.take (k + 1) else new
  ({ seen := s.seen ++ out }, out)

def frun : FSt → List (List Nat) → FSt × List (List Nat)
  | s, [] => (s, [])
  | s, l :: ls =>
    let (s1, e1) := fpoll s l
    let (s2, e2) := frun s1 ls
    (s2, e1 :: e2)

end StreamzVerif.TextFile
