/-!
# Model of the `Source` life cycle (streamz/sources.py)

Two labelled transition systems, both parameterised by `fixed : Bool`:

* `fixed = true`  — `Source.start()` with the fix (fix-1.diff): a flag `_run_live`
  remembers that an invocation of `run()` has been scheduled and has not finished;
  `start()` schedules a new one only when the flag is clear; the flag is cleared
  (in a `finally`) when `run()` returns.
* `fixed = false` — the ORIGINAL mechanism (sources.py 52-61 of the pinned commit):
  `start()` does `self.loop.add_callback(self.run)` whenever `self.stopped` is set.

Python being single-threaded on one event loop, everything a coroutine does between
two suspension points is atomic; the actions of the model are exactly those atoms:

* `start`, `stop`  — the two public calls (sources.py 47-61);
* `resume i`       — the i-th live invocation of `run()` (oldest first) is resumed by
  the event loop: it finishes the cycle it was suspended in (if any), tests
  `self.stopped`, and either returns or begins the next cycle and suspends again
  (sources.py 63-73:  `while not self.stopped: await self._run()`).

What happens *inside* a cycle (`_run`: sleep, emits, several suspension points) is
irrelevant for the life cycle and is not modelled for the polling sources;
`from_iterable`, which overrides `run()` with its own loop (sources.py 788-795),
has its own model below.
-/
namespace StreamzVerif.Source

/-- Where a live invocation of `run()` stands. -/
inductive Phase
  /-- scheduled by `loop.add_callback`, not begun yet: the next thing it does is test `self.stopped` -/
  | atCheck
  /-- suspended inside `await self._run()` (in its sleep or in a back-pressured emit) -/
  | inCycle
deriving DecidableEq, Repr

/-- The public calls and the scheduler's move. -/
inductive Act
  | start
  | stop
  | resume (i : Nat)
deriving DecidableEq, Repr

/-! ## Polling sources (`Source.run`: from_periodic, from_textfile, filenames, from_q) -/

structure St where
  /-- `self.stopped` -/
  stopped : Bool
  /-- `self._run_live` (only read when `fixed`) -/
  runLive : Bool
  /-- live invocations of `run()`, oldest first -/
  loops : List Phase
  /-- number of polling cycles (`_run()` calls) begun so far -/
  cycles : Nat
deriving DecidableEq, Repr

/-- `Source.__init__`: `stopped = True`, no loop (sources.py 40-45, `start=False`). -/
def init : St := { stopped := true, runLive := false, loops := [], cycles := 0 }

def step (fixed : Bool) (s : St) : Act → St
  | .start =>
    -- sources.py 58-61:  if self.stopped: self.stopped = False; self.started = True; add_callback(run)
    if s.stopped then
      if fixed && s.runLive then { s with stopped := false }
      else { s with stopped := false, runLive := true, loops := s.loops ++ [Phase.atCheck] }
    else s
  | .stop =>
    -- sources.py 49-50:  if not self.stopped: self.stopped = True
    if s.stopped then s else { s with stopped := true }
  | .resume i =>
    match s.loops[i]? with
    | none => s
    | some _ =>
      -- sources.py 72-73:  while not self.stopped: await self._run()
      if s.stopped then { s with loops := s.loops.eraseIdx i, runLive := false }
      else { s with loops := s.loops.set i Phase.inCycle, cycles := s.cycles + 1 }

def run (fixed : Bool) (s : St) (acts : List Act) : St := acts.foldl (step fixed) s

/-! ## `from_iterable` (sources.py 784-795)

```
async def run(self):
    for x in self._iterable:            # take
        if self.stopped: break
        await asyncio.gather(*self._emit(x))   # emit, suspend until downstream is done
        if self.stopped: break
    self.stopped = True
```
The iterable is a list of items.  `shared = false`: a re-iterable (list, range):
every invocation of `run()` iterates from the first item.  `shared = true`: an
iterator (generator, `itertools.count()`): all invocations pull from one cursor.
-/

structure Cfg where
  items : List Nat
  shared : Bool
deriving Repr

inductive IPhase
  /-- scheduled, not begun -/
  | fresh
  /-- suspended in `await asyncio.gather(*self._emit(x))` -/
  | inEmit
deriving DecidableEq, Repr

structure ILoop where
  phase : IPhase
  /-- index of the next item this invocation's iterator yields (re-iterable case) -/
  pos : Nat
deriving DecidableEq, Repr

/-- Observable events, kept in a ghost log (newest first). -/
inductive IEv
  /-- an invocation of `run()` begins (calls `iter()`) -/
  | begin
  /-- `for` pulls item `x` out of the iterable -/
  | take (x : Nat)
  /-- `self._emit(x)` is called; its awaitable is now pending -/
  | emit (x : Nat)
  /-- the pending emit-awaitable of the resumed invocation is done -/
  | done
  /-- `break` (stop noticed); `run()` returns -/
  | exit
  /-- the iterable is exhausted; `run()` returns -/
  | exhausted
deriving DecidableEq, Repr

structure ISt where
  stopped : Bool
  runLive : Bool
  loops : List ILoop
  /-- position of the shared iterator (`shared = true`) -/
  cursor : Nat
  log : List IEv
deriving DecidableEq, Repr

def iinit : ISt := { stopped := true, runLive := false, loops := [], cursor := 0, log := [] }

/-- `run()` returns (line 795 `self.stopped = True`; with the fix `_run_live = False`). -/
def leave (s : ISt) (i : Nat) (evs : List IEv) : ISt :=
  { s with stopped := true, runLive := false, loops := s.loops.eraseIdx i, log := evs ++ s.log }

/-- From the head of the `for` statement to the next suspension (lines 789-792). -/
def takeNext (c : Cfg) (s : ISt) (i : Nat) (l : ILoop) : ISt :=
  let p := if c.shared then s.cursor else l.pos
  match c.items[p]? with
  | none => leave s i [.exhausted]
  | some x =>
    let s' := { s with cursor := if c.shared then p + 1 else s.cursor }
    if s.stopped then leave s' i [.exit, .take x]
    else { s' with loops := s.loops.set i { phase := .inEmit, pos := p + 1 }, log := .emit x :: .take x :: s.log }

def istep (fixed : Bool) (c : Cfg) (s : ISt) : Act → ISt
  | .start =>
    if s.stopped then
      if fixed && s.runLive then { s with stopped := false }
      else { s with stopped := false, runLive := true, loops := s.loops ++ [{ phase := .fresh, pos := 0 }] }
    else s
  | .stop => if s.stopped then s else { s with stopped := true }
  | .resume i =>
    match s.loops[i]? with
    | none => s
    | some l =>
      match l.phase with
      | .fresh => takeNext c { s with log := .begin :: s.log } i l
      | .inEmit =>
        -- the awaited emit is done; line 793-794: if self.stopped: break
        if s.stopped then leave s i [.exit, .done]
        else takeNext c { s with log := .done :: s.log } i l

def irun (fixed : Bool) (c : Cfg) (s : ISt) (acts : List Act) : ISt := acts.foldl (istep fixed c) s

/-! ### Readings of the ghost log (newest first) -/

/-- items emitted, oldest first -/
def emitted : List IEv → List Nat
  | [] => []
  | .emit x :: l => emitted l ++ [x]
  | _ :: l => emitted l

/-- items pulled out of the iterable, oldest first -/
def taken : List IEv → List Nat
  | [] => []
  | .take x :: l => taken l ++ [x]
  | _ :: l => taken l

/-- items emitted since the most recent `begin`, oldest first -/
def curRun : List IEv → List Nat
  | [] => []
  | .begin :: _ => []
  | .emit x :: l => curRun l ++ [x]
  | _ :: l => curRun l

/-- number of emit-awaitables handed out and not yet done -/
def pending : List IEv → Nat
  | [] => 0
  | .emit _ :: l => pending l + 1
  | .done :: l => pending l - 1
  | _ :: l => pending l

end StreamzVerif.Source
