import StreamzVerif.Model.Val
/-
Model of the synchronous dataflow core of streamz (core.py `Stream._emit`, the
`update` methods of the synchronous node types, `sinks.sink.update`, reference
counting through `_retain_refs` / `_release_refs`, `connect` / `disconnect` /
`destroy`).  Core Lean only.

Each node kind is a *local* function `upd` from (state, who, value, metadata) to a
straight-line program of effects (retain / release / emit / set-state / detach)
— a transcription of the body of its `update` — and the generic interpreter
(`emitAt` / `deliver` / `update` / `runEffs`) is `Stream._emit`:

    if metadata: self._retain_refs(metadata, len(self.downstreams)) else: metadata = []
    for downstream in list(self.downstreams):
        r = downstream.update(x, who=self, metadata=metadata)
        result.extend(r) / result.append(r)
        self._release_refs(metadata)
    return [e for e in result if e is not None]

Exceptions abort the interpreter at the point where they are raised and leave
the state *as mutated so far* (Python semantics, no rollback).
-/
namespace StreamzVerif.Graph

abbrev NodeId := Nat
abbrev Tok := Nat

inductive Pick | idx (i : Nat) | idxs (l : List Nat)
  deriving Repr, DecidableEq, Inhabited

/-- `sync f`: `sink(f)` with an ordinary function (may raise);
    `async`: the function returns an awaitable that the environment completes later. -/
inductive SinkMode | sync (f : Fn) | async
  deriving Repr, DecidableEq, Inhabited

inductive Kind
  | source | union
  | map (f : Fn) | starmap (f : Fn) | filter (p : Fn)
  | accumulate (f : Fn2) (start : Option Val) (returnsState withState : Bool)
  | slice (start : Nat) (stop : Option Nat) (step : Nat)
  | partition (n : Nat) (key : Option Fn)
  | partitionUnique (n : Nat) (key : Fn) (keepLast : Bool)
  | slidingWindow (n : Nat) (part : Bool)
  | unique (maxsize : Option Nat) (key : Fn) (hashable : Bool)
  | flatten | pluck (p : Pick) | collect
  | zip (literals : List (Nat × Val))
  | combineLatest (emitOn : Option (List NodeId))
  | zipLatest
  | sink (m : SinkMode)
  deriving Repr, Inhabited

/-- Node-local state.  One record for all kinds; each kind uses the fields its
Python class has (named in the comments). -/
structure NState where
  ups : List NodeId := []                         -- self.upstreams
  acc : Option Val := none                        -- accumulate.state (none = no_default)
  cnt : Nat := 0                                  -- slice.state
  items : List (Val × Val × Meta) := []           -- (key, x, metadata): partition / partition_unique buffers, sliding_window.metadata_buffer, collect cache
  win : List Val := []                            -- sliding_window._buffer (deque(maxlen=n))
  seen : List Val := []                           -- unique.seen, most recently used first
  bufs : List (NodeId × List (Val × Meta)) := []  -- zip.buffers (dict in insertion order)
  last : List Val := []                           -- combine_latest.last / zip_latest.last
  lastMd : List Meta := []                        -- combine_latest.metadata / zip_latest.metadata ([] for None)
  missing : List NodeId := []                     -- combine_latest.missing / zip_latest.missing
  lossless : List (Val × Meta) := []              -- zip_latest.lossless_buffer
  emitOn : List NodeId := []                      -- combine_latest.emit_on
  deriving Inhabited

inductive Eff
  | retain (md : Meta)
  | release (md : Meta)
  | emit (v : Val) (md : Meta)
  | set (s : NState)
  | detach                       -- slice._check_end: remove self from every upstream's downstreams
  | emitThenRelease (v : Val) (md : Meta)
      -- partition._flush: `yield self._emit(v, md); self._release_refs(md)` — the release waits for the
      -- awaitables the emission returned (immediate when there are none)
  deriving Inhabited

structure UpdRes where
  effs : List Eff := []
  err : Option Err := none       -- raised after the effects have been performed
  passRet : Bool := true         -- update() returns what its _emit calls returned
  deriving Inhabited

def raise (e : Err) (effs : List Eff := []) : UpdRes := { effs := effs, err := some e }

/-- `[m for ml in mds for m in ml]` -/
def flatMd (mds : List Meta) : Meta := mds.flatten

def idxOf (l : List NodeId) (x : NodeId) : Option Nat :=
  let i := l.idxOf x
  if i < l.length then some i else none

/-- zip.pack_literals -/
def packLiterals (lits : List (Nat × Val)) (tup : List Val) : List Val :=
  let rec go : List (Nat × Val) → List Val → List Val → List Val
    | [], inp, out => out ++ inp
    | (i, v) :: ls, inp, out =>
      let need := i - out.length
      go ls (inp.drop need) (out ++ inp.take need ++ [v])
  go lits tup []

/-- LRU with refresh on hit (zict.LRU through `.get`, and the list mode of `unique`). -/
def lruTouch (cap : Option Nat) (seen : List Val) (y : Val) : List Val :=
  let s := y :: seen.filter (· ≠ y)
  match cap with
  | some c => s.take c
  | none => s

def pluckOne (x : Val) (i : Nat) : Except Err Val :=
  match x with
  | .tup l => match l[i]? with | some v => .ok v | none => .error .indexError
  | .lst l => match l[i]? with | some v => .ok v | none => .error .indexError
  | .str s => match s.toList[i]? with | some c => .ok (.str (String.singleton c)) | none => .error .indexError
  | _ => .error .typeError

/-- iteration of `chain(x)` in flatten -/
def iterVal : Val → Except Err (List Val)
  | .tup l => .ok l
  | .lst l => .ok l
  | .str s => .ok (s.toList.map (fun c => .str (String.singleton c)))
  | _ => .error .typeError

def emitAllButLast : List Val → Meta → List Eff
  | [], _ => []
  | [x], md => [.emit x md]
  | x :: y :: t, md => .emit x [] :: emitAllButLast (y :: t) md

/-- The body of `update(self, x, who, metadata)` for every synchronous kind except `sink`. -/
def upd (k : Kind) (s : NState) (who : NodeId) (x : Val) (md : Meta) : UpdRes :=
  match k with
  | .source | .union => { effs := [.emit x md] }
  | .sink _ => {}
  | .map f =>
    match f.eval x with
    | .ok y => { effs := [.emit y md] }
    | .error e => raise e
  | .starmap f =>
    -- y = x + self.args  (tuple + ()), func(*y)
    match x with
    | .tup _ => match f.eval x with
      | .ok y => { effs := [.emit y md] }
      | .error e => raise e
    | _ => raise .typeError
  | .filter p =>
    match p.eval x with
    | .ok b => if b.truthy then { effs := [.emit x md] } else { effs := [] , passRet := false }
    | .error e => raise e
  | .accumulate f _ returnsState withState =>
    match s.acc with
    | none =>
      let s1 := { s with acc := some x }
      { effs := [.set s1, .emit (if withState then .tup [x, x] else x) md] }
    | some st =>
      match f.eval st x with
      | .error e => raise e
      | .ok r =>
        if returnsState then
          match r with
          | .tup [st', res] =>
            { effs := [.set { s with acc := some st' }, .emit (if withState then .tup [st', res] else res) md] }
          | .tup _ => raise .valueError
          | .lst [st', res] =>
            { effs := [.set { s with acc := some st' }, .emit (if withState then .tup [st', res] else res) md] }
          | .lst _ => raise .valueError
          | _ => raise .typeError
        else
          { effs := [.set { s with acc := some r }, .emit (if withState then .tup [r, r] else r) md] }
  | .slice start stop step =>
    let fire := s.cnt ≥ start ∧ (s.cnt - start) % step = 0
    let s1 := { s with cnt := s.cnt + 1 }
    let fin : Bool := match stop with | some e => decide (e ≠ 0 ∧ s1.cnt ≥ e) | none => false
    { effs := (if fire then [.emit x md] else []) ++ [.set s1] ++ (if fin then [.detach] else []) }
  | .partition n key =>
    match (match key with | none => Except.ok Val.none | some kf => kf.eval x) with
    | .error e => raise e [.retain md]
    | .ok ky =>
      if !ky.hashable then raise .typeError [.retain md] else     -- self._buffer[key]: dict lookup
      let items := s.items ++ [(ky, x, md)]
      let mine := items.filter (fun it => it.1 = ky)
      if mine.length = n then
        let rest := items.filter (fun it => it.1 ≠ ky)
        let mdAll := flatMd (mine.map (·.2.2))
        { effs := [.retain md, .set { s with items := rest }, .emitThenRelease (.tup (mine.map (·.2.1))) mdAll] }
      else
        { effs := [.retain md, .set { s with items := items }] }
  | .partitionUnique n key keepLast =>
    match key.eval x with
    | .error e => raise e [.retain md]
    | .ok ky =>
      if !ky.hashable then raise .typeError [.retain md] else     -- dict lookup on self._buffer
      let present := s.items.find? (fun it => it.1 = ky)
      let (items, rel) :=
        if keepLast then
          (s.items.filter (fun it => it.1 ≠ ky) ++ [(ky, x, md)],
            match present with | some it => (if it.2.2.isEmpty then [] else [Eff.release it.2.2]) | none => [])
        else
          match present with
          | some _ => (s.items, [Eff.release md])
          | none => (s.items ++ [(ky, x, md)], [])
      if items.length = n then
        let mdAll := flatMd (items.map (·.2.2))
        { effs := [.retain md] ++ rel ++ [.set { s with items := [] }, .emit (.tup (items.map (·.2.1))) mdAll, .release mdAll] }
      else
        { effs := [.retain md] ++ rel ++ [.set { s with items := items }], passRet := false }
  | .slidingWindow n part =>
    let win := (s.win ++ [x]).drop ((s.win.length + 1) - n)
    -- metadata_buffer is a deque(maxlen=n) too: an append on a full one evicts the oldest (only reachable
    -- when a downstream exception skipped the popleft below)
    let mds := (s.items ++ [(Val.none, Val.none, md)]).drop ((s.items.length + 1) - n)
    let s1 := { s with win := win, items := mds }
    if part ∨ win.length = n then
      let post := if mds.length = n then
          match mds with
          | h :: t => [Eff.set { s1 with items := t }, Eff.release h.2.2]
          | [] => []
        else []
      { effs := [.retain md, .set s1, .emit (.tup win) (flatMd (mds.map (·.2.2)))] ++ post }
    else
      { effs := [.retain md, .set s1], passRet := false }
  | .unique maxsize key hashable =>
    match key.eval x with
    | .error e => raise e
    | .ok y =>
      if hashable && !y.hashable then raise .typeError else       -- self.seen.get(y): dict / LRU lookup
      let hit := s.seen.contains y
      -- hashable mode: LRU.get refreshes on hit, insert on miss; list mode: move to front, truncate
      let s1 := { s with seen := lruTouch (match maxsize with | some 0 => none | m => m) s.seen y }
      if hit then { effs := [.set s1], passRet := false } else { effs := [.set s1, .emit x md] }
  | .flatten =>
    match iterVal x with
    | .error e => raise e
    | .ok l => { effs := emitAllButLast l md }
  | .pluck (.idx i) =>
    match pluckOne x i with
    | .ok v => { effs := [.emit v md] }
    | .error e => raise e
  | .pluck (.idxs l) =>
    match l.mapM (pluckOne x) with
    | .ok vs => { effs := [.emit (.tup vs) md] }
    | .error e => raise e
  | .collect =>
    { effs := [.retain md, .set { s with items := s.items ++ [(Val.none, x, md)] }], passRet := false }
  | .zip lits =>
    match s.bufs.find? (·.1 = who) with
    | none => raise .keyError [.retain md]
    | some (_, L) =>
      let L' := L ++ [(x, md)]
      let bufs := s.bufs.map (fun b => if b.1 = who then (b.1, L') else b)
      if L'.length = 1 ∧ bufs.all (fun b => !b.2.isEmpty) then
        -- vals = [self.buffers[up][0] for up in self.upstreams]
        let heads := s.ups.filterMap (fun u => (bufs.find? (·.1 = u)).bind (·.2.head?))
        let bufs' := bufs.map (fun b => (b.1, b.2.tail))
        let tup := packLiterals lits (heads.map (·.1))
        let mdAll := flatMd (heads.map (·.2))
        { effs := [.retain md, .set { s with bufs := bufs' }, .emit (.tup tup) mdAll, .release mdAll] }
      else
        { effs := [.retain md, .set { s with bufs := bufs }], passRet := false }
  | .combineLatest _ =>
    match idxOf s.ups who with
    | none => raise .valueError [.retain md]
    | some idx =>
      let old := s.lastMd.getD idx []
      let rel := if old.isEmpty then [] else [Eff.release old]
      let s1 := { s with lastMd := s.lastMd.set idx md, last := s.last.set idx x,
                         missing := s.missing.filter (· ≠ who) }
      if s1.missing.isEmpty ∧ s.emitOn.contains who then
        { effs := [.retain md] ++ rel ++ [.set s1, .emit (.tup s1.last) (flatMd s1.lastMd)] }
      else
        { effs := [.retain md] ++ rel ++ [.set s1], passRet := false }
  | .zipLatest =>
    match idxOf s.ups who with
    | none => raise .valueError [.retain md]
    | some idx =>
      let isLossless := idx = 0
      let old := s.lastMd.getD idx []
      let rel := if !isLossless ∧ !old.isEmpty then [Eff.release old] else []
      let s1 := { s with lossless := if isLossless then s.lossless ++ [(x, md)] else s.lossless,
                         lastMd := s.lastMd.set idx md, last := s.last.set idx x,
                         missing := s.missing.filter (· ≠ who) }
      if s1.missing.isEmpty then
        -- while self.lossless_buffer: last[0], metadata[0] = popleft(); emit; release(metadata[0])
        let rec drain : List (Val × Meta) → NState → List Eff
          | [], _ => []
          | (v, m) :: rest, st =>
            let st' := { st with lossless := rest, last := st.last.set 0 v, lastMd := st.lastMd.set 0 m }
            [Eff.set st', Eff.emit (.tup st'.last) (flatMd st'.lastMd), Eff.release m] ++ drain rest st'
        { effs := [.retain md] ++ rel ++ [.set s1] ++ drain s1.lossless s1 }
      else
        { effs := [.retain md] ++ rel ++ [.set s1], passRet := false }

/-- `collect.flush()` -/
def flushProg (s : NState) : List Eff :=
  let mdAll := flatMd (s.items.map (·.2.2))
  [.emit (.tup (s.items.map (·.2.1))) mdAll, .release mdAll, .set { s with items := [] }]

/-! ### Global state and the interpreter -/

structure State where
  loc : NodeId → NState
  downs : NodeId → List NodeId
  count : Nat → Int := fun _ => 0
  nextTok : Tok := 0
  pending : List (Tok × NodeId × Meta) := []      -- asynchronous consumer invocations not finished
  doneToks : List Tok := []                       -- consumer invocations that finished normally
  waiters : List (List Tok × Meta) := []          -- suspended `_flush` coroutines: release `md` once all toks are done

def State.setLoc (S : State) (i : NodeId) (s : NState) : State :=
  { S with loc := fun j => if j = i then s else S.loc j }

def State.setDowns (S : State) (i : NodeId) (l : List NodeId) : State :=
  { S with downs := fun j => if j = i then l else S.downs j }

inductive Ev
  | arrive (d who : NodeId) (v : Val) (md : Meta)
  | emit (n : NodeId) (v : Val) (md : Meta)
  | retain (r : Nat) (k : Nat)
  | release (r : Nat)
  | fire (r : Nat)
  | sinkStart (s : NodeId) (tok : Tok) (v : Val) (md : Meta)
  | sinkDone (tok : Tok)
  | raised (n : NodeId) (e : Err)
  deriving Inhabited

structure Res where
  st : State
  log : List Ev := []
  toks : List Tok := []
  err : Option Err := none          -- raised synchronously: aborts the enclosing frames
  carried : Option Err := none      -- captured by a coroutine-style update (partition): carried by the returned awaitable

/-- `_retain_refs(metadata, k)` -/
def retainMd (k : Nat) : Meta → State → State × List Ev
  | [], S => (S, [])
  | m :: ms, S =>
    match m.ref with
    | none => retainMd k ms S
    | some r =>
      let S1 := { S with count := fun q => if q = r then S.count r + k else S.count q }
      let (S2, l) := retainMd k ms S1
      (S2, Ev.retain r k :: l)

/-- `_release_refs(metadata)`; the callback is scheduled whenever the count is ≤ 0 after a release. -/
def releaseMd : Meta → State → State × List Ev
  | [], S => (S, [])
  | m :: ms, S =>
    match m.ref with
    | none => releaseMd ms S
    | some r =>
      let c := S.count r - 1
      let S1 := { S with count := fun q => if q = r then c else S.count q }
      let (S2, l) := releaseMd ms S1
      (S2, Ev.release r :: (if c ≤ 0 then Ev.fire r :: l else l))

def Res.fail (S : State) (e : Err) (log : List Ev := []) : Res := { st := S, log := log, err := some e }

def detachNode (d : NodeId) (S : State) : State :=
  (S.loc d).ups.foldl (fun S u => S.setDowns u ((S.downs u).filter (· ≠ d))) S

def isCoroutine : Kind → Bool
  | .partition _ _ => true
  | _ => false

variable (G : NodeId → Kind)

mutual
/-- `Stream._emit` at node `n`. -/
def emitAt : Nat → NodeId → Val → Meta → State → Res
  | 0, _, _, _, S => Res.fail S .outOfFuel
  | f + 1, n, v, md, S =>
    let ds := S.downs n
    let (S1, l1) := if md.isEmpty then (S, []) else retainMd ds.length md S
    let r := deliver f ds n v md S1
    { r with log := Ev.emit n v md :: l1 ++ r.log }
/-- the `for downstream in list(self.downstreams)` loop -/
def deliver : Nat → List NodeId → NodeId → Val → Meta → State → Res
  | 0, _, _, _, _, S => Res.fail S .outOfFuel
  | _ + 1, [], _, _, _, S => { st := S }
  | f + 1, d :: ds, n, v, md, S =>
    let r1 := update f d n v md S
    match r1.err with
    | some _ => r1
    | none =>
      let (S2, l2) := releaseMd md r1.st
      let r2 := deliver f ds n v md S2
      { st := r2.st, log := r1.log ++ l2 ++ r2.log, toks := r1.toks ++ r2.toks, err := r2.err,
        carried := r1.carried <|> r2.carried }
/-- `downstream.update(x, who=self, metadata=metadata)` -/
def update : Nat → NodeId → NodeId → Val → Meta → State → Res
  | 0, _, _, _, _, S => Res.fail S .outOfFuel
  | f + 1, d, who, v, md, S =>
    match G d with
    | .sink (.sync fn) =>
      match fn.eval v with
      | .ok _ => { st := S, log := [Ev.arrive d who v md] }
      | .error e => Res.fail S e [Ev.arrive d who v md, Ev.raised d e]
    | .sink .async =>
      -- result is awaitable: `if metadata: retain; return _release_when_done(result, metadata)`
      let tok := S.nextTok
      let (S1, l1) := if md.isEmpty then (S, []) else retainMd 1 md S
      let S2 := { S1 with nextTok := tok + 1, pending := S1.pending ++ [(tok, d, md)] }
      { st := S2, log := [Ev.arrive d who v md, Ev.sinkStart d tok v md] ++ l1, toks := [tok] }
    | k =>
      let u := upd k (S.loc d) who v md
      let r := runEffs f d u.effs S
      let res : Res :=
        match r.err with
        | some _ => { r with log := Ev.arrive d who v md :: r.log }
        | none =>
          match u.err with
          | some e => { st := r.st, log := Ev.arrive d who v md :: r.log ++ [Ev.raised d e], err := some e, carried := r.carried }
          | none => { st := r.st, log := Ev.arrive d who v md :: r.log, toks := if u.passRet then r.toks else [],
                      carried := r.carried }
      -- `partition.update` is a `gen.coroutine`: an exception raised inside it (by the key function or by
      -- anything downstream of its flush) is captured in the Future it returns; the caller's loop goes on.
      if isCoroutine k then
        match res.err with
        | some .outOfFuel => res
        | some e => { res with err := none, toks := [], carried := some e }
        | none => res
      else res
/-- the straight-line body of an update -/
def runEffs : Nat → NodeId → List Eff → State → Res
  | 0, _, _, S => Res.fail S .outOfFuel
  | _ + 1, _, [], S => { st := S }
  | f + 1, d, e :: es, S =>
    match e with
    | .retain md =>
      let (S1, l1) := retainMd 1 md S
      let r := runEffs f d es S1
      { r with log := l1 ++ r.log }
    | .release md =>
      let (S1, l1) := releaseMd md S
      let r := runEffs f d es S1
      { r with log := l1 ++ r.log }
    | .set s =>
      runEffs f d es (S.setLoc d s)
    | .detach =>
      runEffs f d es (detachNode d S)
    | .emit v md =>
      let r1 := emitAt f d v md S
      match r1.err with
      | some _ => r1
      | none =>
        let r2 := runEffs f d es r1.st
        { st := r2.st, log := r1.log ++ r2.log, toks := r1.toks ++ r2.toks, err := r2.err,
          carried := r1.carried <|> r2.carried }
    | .emitThenRelease v md =>
      let r1 := emitAt f d v md S
      match r1.err with
      | some _ => r1
      | none =>
        match r1.carried with
        | some _ => r1        -- the yielded list contains a failed future: the coroutine raises, nothing is released
        | none =>
          let (S1, l1) :=
            if r1.toks.isEmpty then releaseMd md r1.st
            else ({ r1.st with waiters := r1.st.waiters ++ [(r1.toks, md)] }, [])
          let r2 := runEffs f d es S1
          { st := r2.st, log := r1.log ++ l1 ++ r2.log, toks := r1.toks ++ r2.toks, err := r2.err,
            carried := r2.carried }
end

/-- `collect.flush()` called from outside: the awaitables of the emission are dropped. -/
def flushAt (fuel : Nat) (d : NodeId) (S : State) : Res :=
  let r := runEffs G fuel d (flushProg (S.loc d)) S
  { r with toks := [] }

/-- Resume every suspended `_flush` whose awaitables are all done, in registration order. -/
def wakeWaiters : List (List Tok × Meta) → State → State × List Ev
  | [], S => ({ S with waiters := [] }, [])
  | (toks, md) :: ws, S =>
    if toks.all (fun t => S.doneToks.contains t) then
      let (S1, l1) := releaseMd md S
      let (S2, l2) := wakeWaiters ws S1
      (S2, l1 ++ l2)
    else
      let (S2, l2) := wakeWaiters ws S
      ({ S2 with waiters := (toks, md) :: S2.waiters }, l2)

/-- An asynchronous consumer finishes normally: the sink's done-callback releases its references,
then the coroutines waiting on it continue. -/
def sinkDone (tok : Tok) (S : State) : Option (State × List Ev) :=
  match S.pending.find? (·.1 = tok) with
  | none => none
  | some (_, _, md) =>
    let S1 := { S with pending := S.pending.filter (·.1 ≠ tok), doneToks := tok :: S.doneToks }
    let (S2, l) := releaseMd md S1
    let (S3, l3) := wakeWaiters S2.waiters S2
    some (S3, Ev.sinkDone tok :: l ++ l3)

/-- An asynchronous consumer raises: nothing is released, and whoever awaited it fails too. -/
def sinkFail (tok : Tok) (S : State) : Option State :=
  match S.pending.find? (·.1 = tok) with
  | none => none
  | some _ => some { S with pending := S.pending.filter (·.1 ≠ tok),
                            waiters := S.waiters.filter (fun w => !w.1.contains tok) }

end StreamzVerif.Graph
