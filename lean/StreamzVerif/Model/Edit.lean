import StreamzVerif.Model.Graph
/-
Graph editing (core.py `connect`, `disconnect`, `destroy`, the `_add_upstream` /
`_remove_upstream` overrides of `zip` and `combine_latest`, `Sink.destroy`) and
liveness under garbage collection (children hold their parents strongly, parents
hold their children through the weak `OrderedWeakrefSet`; sinks are kept alive by
`_global_sinks` until destroyed).  Core Lean only.
-/
namespace StreamzVerif.Graph

/-- `_add_upstream(upstream)` per kind. -/
def addUpstream (k : Kind) (s : NState) (u : NodeId) : NState :=
  match k with
  | .zip _ =>
    -- self.buffers[upstream] = deque()   (an existing key keeps its position and is reset)
    let bufs := if s.bufs.any (·.1 = u) then s.bufs.map (fun b => if b.1 = u then (u, []) else b)
                else s.bufs ++ [(u, [])]
    { s with bufs := bufs, ups := s.ups ++ [u] }
  | .combineLatest eo =>
    let ups := s.ups ++ [u]
    { s with last := s.last ++ [Val.none], lastMd := s.lastMd ++ [[]],
             missing := if s.missing.contains u then s.missing else s.missing ++ [u],
             ups := ups, emitOn := match eo with | none => ups | some _ => s.emitOn }
  | _ => { s with ups := s.ups ++ [u] }

/-- `_remove_upstream(upstream)` per kind: new state, references to release, or the exception. -/
def removeUpstream (k : Kind) (s : NState) (u : NodeId) : Except Err (NState × Meta) :=
  match k with
  | .zip _ =>
    match s.bufs.find? (·.1 = u) with
    | none => .error .keyError
    | some (_, L) =>
      if s.ups.contains u then
        .ok ({ s with bufs := s.bufs.filter (·.1 ≠ u), ups := s.ups.erase u }, flatMd (L.map (·.2)))
      else .error .valueError
  | .combineLatest eo =>
    match idxOf s.ups u with
    | none => .error .valueError
    | some idx =>
      let ups := s.ups.erase u
      .ok ({ s with last := s.last.eraseIdx idx, lastMd := s.lastMd.eraseIdx idx,
                    missing := s.missing.filter (· ≠ u), ups := ups,
                    emitOn := match eo with | none => ups | some _ => s.emitOn },
           s.lastMd.getD idx [])
  | _ => if s.ups.contains u then .ok ({ s with ups := s.ups.erase u }, []) else .error .valueError

structure EditRes where
  st : State
  log : List Ev := []
  err : Option Err := none

variable (G : NodeId → Kind)

/-- `u.connect(d)` -/
def connect (u d : NodeId) (S : State) : State :=
  let S1 := S.setDowns u (if (S.downs u).contains d then S.downs u else S.downs u ++ [d])
  S1.setLoc d (addUpstream (G d) (S1.loc d) u)

/-- `d._remove_upstream(u)` including the release of what the node held for `u`. -/
def dropUpstream (u d : NodeId) (S : State) : EditRes :=
  match removeUpstream (G d) (S.loc d) u with
  | .error e => { st := S, err := some e }
  | .ok (s', md) =>
    let (S2, l) := releaseMd md (S.setLoc d s')
    { st := S2, log := l }

/-- `u.disconnect(d)`: `u._remove_downstream(d)` (KeyError when absent) then `d._remove_upstream(u)`. -/
def disconnect (u d : NodeId) (S : State) : EditRes :=
  if (S.downs u).contains d then
    dropUpstream G u d (S.setDowns u ((S.downs u).erase d))
  else { st := S, err := some .keyError }

/-- `d.destroy()`: for upstream in list(self.upstreams): upstream._remove_downstream(self); self._remove_upstream(upstream) -/
def destroyLoop : List NodeId → NodeId → State → EditRes
  | [], _, S => { st := S }
  | u :: us, d, S =>
    let r1 := disconnect G u d S
    match r1.err with
    | some _ => r1
    | none =>
      let r2 := destroyLoop us d r1.st
      { st := r2.st, log := r1.log ++ r2.log, err := r2.err }

def destroy (d : NodeId) (S : State) : EditRes := destroyLoop G (S.loc d).ups d S

/-- `d.destroy(streams=sel)`: the same loop over the given selection (`streams=None` means all upstreams: `destroy`). -/
def destroySel (sel : List NodeId) (d : NodeId) (S : State) : EditRes := destroyLoop G sel d S

/-! ### Liveness -/

structure Live where
  held : NodeId → Bool          -- the program still holds a reference
  sinkReg : NodeId → Bool       -- registered in `_global_sinks` (a sink that has not been destroyed)

/-- One round: everything alive keeps its upstreams alive. -/
def aliveStep (nodes : List NodeId) (S : State) (alive : NodeId → Bool) : NodeId → Bool :=
  -- a node holds its upstreams strongly; combine_latest also holds the streams of an explicit `emit_on`
  fun i => alive i || nodes.any (fun c => alive c && ((S.loc c).ups.contains i || (S.loc c).emitOn.contains i))

def aliveIter (nodes : List NodeId) (S : State) : Nat → (NodeId → Bool) → (NodeId → Bool)
  | 0, a => a
  | n + 1, a => aliveIter nodes S n (aliveStep nodes S a)

/-- Nodes reachable (upwards) from a held node or a registered sink. -/
def alive (nodes : List NodeId) (L : Live) (S : State) : NodeId → Bool :=
  aliveIter nodes S nodes.length (fun i => L.held i || L.sinkReg i)

/-- Garbage collection: dead nodes vanish from every (weak) downstream set. -/
def collect (nodes : List NodeId) (L : Live) (S : State) : State :=
  let a := alive nodes L S
  { S with downs := fun u => (S.downs u).filter a }

end StreamzVerif.Graph
