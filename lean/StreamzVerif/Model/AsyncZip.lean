import StreamzVerif.Model.Val
/-
Event-loop model of `zip(*upstreams, maxsize=m)` (core.py 1594-1668) under asynchronous producers, in the
context   producers (k source Streams) -> zip -> sinks   at settled granularity.

    def update(self, x, who=None, metadata=None):                      # 1651
        self._retain_refs(metadata)                                    # 1652
        L = self.buffers[who]                                          # 1653
        L.append((x, metadata))                                        # 1654
        if len(L) == 1 and all(self.buffers.values()):                 # 1655
            vals = [self.buffers[up][0] for up in self.upstreams]      # 1656
            tup, md = __builtins__['zip'](*vals)                       # 1657
            for buf in self.buffers.values(): buf.popleft()            # 1658-1659
            self.condition.notify_all()                                # 1660
            ...
            md = [m for ml in md for m in ml]                          # 1663
            ret = self._emit(tup, md)                                  # 1664
            self._release_refs(md)                                     # 1665
            return ret                                                 # 1666
        elif len(L) > self.maxsize:                                    # 1667
            return self.condition.wait()                               # 1668

Actions (= the harness operations):
  `arrive u x md`   the producer of upstream `u` calls `emit(x, metadata=md)`: `Stream._emit` of the source
                    retains `md` once (one downstream: the zip node), calls `zip.update`, releases `md`
                    (core.py 444-460);
  `sinkDone tok`    the awaitable returned by the consumer invocation `tok` of an asynchronous sink completes
                    (its done-callback releases the references the sink retained, sinks.py `sink.update`).
`advance` / `settle` of the harness are no-ops: nothing in `zip` depends on time.

Equations used for tornado: `Condition.wait()` returns a Future that is pending until the next
`notify_all()`, which resolves every waiter registered so far (tornado/locks.py `Condition.notify`); the
awaitable `Stream.emit` builds from a list of awaitables is done iff every member is done (an empty list is
done after one loop iteration, i.e. at the next settled point).  Observations are taken when the loop has
settled, so "resolved" = "done".

State also carries the histories the theorems talk about (`arrs`, `outs`, `fired`).  Core Lean only.
-/
namespace StreamzVerif.AsyncZip

abbrev Tok := Nat
abbrev Cnt := Nat → Int

/-- `k` upstream Streams (buffers), `maxsize`, and the downstreams of the zip node in attachment order
(`true` = sink whose function returns an awaitable, `false` = synchronous sink). -/
structure Cfg where
  k : Nat
  maxsize : Nat
  sinks : List Bool
  deriving Repr, DecidableEq

/-- one buffered `(x, metadata)` -/
structure Entry (α : Type) where
  val : α
  md : Meta
  deriving Repr, DecidableEq

/-- the reference counters named in a metadata list (`if 'ref' in m`) -/
def refsOf (md : Meta) : List Nat := md.filterMap (·.ref)

/-- `RefCounter.retain(n)` / `RefCounter.release()` on counter `r` -/
def bump (c : Cnt) (r : Nat) (d : Int) : Cnt := fun q => if q = r then c q + d else c q

/-- `_retain_refs(metadata, n)` (core.py 644-660) -/
def retainRefs (n : Nat) : List Nat → Cnt → Cnt
  | [], c => c
  | r :: rs, c => retainRefs n rs (bump c r n)

/-- `_release_refs(metadata)` (core.py 662-676); `RefCounter.release` schedules the callback whenever the count
is ≤ 0 afterwards (core.py 105-117).  Returns the new table and the callbacks fired, in order. -/
def releaseRefs : List Nat → Cnt → Cnt × List Nat
  | [], c => (c, [])
  | r :: rs, c =>
    let p := releaseRefs rs (bump c r (-1))
    (p.1, if c r - 1 ≤ 0 then r :: p.2 else p.2)

/-- status of the awaitable one producer `emit` returned -/
inductive Status
  | done
  | blocked                      -- waiting on `zip.condition`
  | awaiting (toks : List Tok)   -- waiting for the consumers the emitted tuple started
  deriving Repr, DecidableEq

structure St (α : Type) where
  bufs : Nat → List (Entry α) := fun _ => []    -- zip.buffers, by upstream position
  emits : List (Nat × Status) := []             -- every producer emission so far: (upstream, status of its awaitable)
  count : Cnt := fun _ => 0                     -- RefCounter.count
  nextTok : Tok := 0
  pending : List (Tok × Meta) := []             -- unfinished asynchronous consumer invocations and what they hold
  arrs : Nat → List (Entry α) := fun _ => []    -- history: everything upstream u ever delivered
  outs : List (Nat → Option (Entry α)) := []    -- history: emitted tuples (component u = element taken from buffer u)
  fired : List Nat := []                        -- history: completion callbacks, in firing order

inductive Act (α : Type)
  | arrive (u : Nat) (x : α) (md : Meta)
  | sinkDone (tok : Tok)
  deriving Repr

def setAt {β : Type} (f : Nat → β) (u : Nat) (b : β) : Nat → β := fun v => if v = u then b else f v

/-- `all(self.buffers.values())` -/
def allNonempty {β : Type} (k : Nat) (bufs : Nat → List β) : Bool :=
  (List.range k).all fun v => !(bufs v).isEmpty

/-- the tuple as a list, in upstream order -/
def tupleList {β : Type} (k : Nat) (t : Nat → Option β) : List β := (List.range k).filterMap t

/-- `condition.notify_all()` as seen by one waiting producer -/
def wake : Nat × Status → Nat × Status
  | (u, .blocked) => (u, .done)
  | e => e

/-- a consumer finished, as seen by one producer awaiting it -/
def finishTok (tok : Tok) : Nat × Status → Nat × Status
  | (u, .awaiting toks) =>
    let t := toks.filter (· ≠ tok)
    (u, if t.isEmpty then .done else .awaiting t)
  | e => e

/-- The `for downstream in self.downstreams` loop of `zip._emit(tup, md)` over the sinks: an asynchronous sink
retains `md` for the duration of its consumer and returns one awaitable (token); `_emit` releases after every
downstream.  Returns the count table, the callbacks fired, the tokens allocated from `t` on. -/
def deliverSinks (refs : List Nat) : List Bool → Cnt → Tok → Cnt × List Nat × List Tok
  | [], c, _ => (c, [], [])
  | a :: rest, c, t =>
    let c1 := if a then retainRefs 1 refs c else c
    let p := releaseRefs refs c1
    let q := deliverSinks refs rest p.1 (if a then t + 1 else t)
    (q.1, p.2 ++ q.2.1, if a then t :: q.2.2 else q.2.2)

/-- the producer of upstream `u` emits `x` with metadata `md` -/
def arrive {α : Type} (cfg : Cfg) (s : St α) (u : Nat) (x : α) (md : Meta) : St α :=
  if u < cfg.k then
    let e : Entry α := ⟨x, md⟩
    -- source `_emit`: retain once (one downstream); zip.update line 1652: retain once more
    let c2 := retainRefs 1 (refsOf md) (retainRefs 1 (refsOf md) s.count)
    let bufs' := setAt s.bufs u (s.bufs u ++ [e])
    let arrs' := setAt s.arrs u (s.arrs u ++ [e])
    if (s.bufs u ++ [e]).length = 1 ∧ allNonempty cfg.k bufs' = true then
      let tup : Nat → Option (Entry α) := fun v => if v < cfg.k then (bufs' v).head? else none
      let mdAll : Meta := (tupleList cfg.k tup).flatMap (·.md)
      let c3 := retainRefs cfg.sinks.length (refsOf mdAll) c2       -- zip._emit: retain len(downstreams)
      let d := deliverSinks (refsOf mdAll) cfg.sinks c3 s.nextTok
      let r5 := releaseRefs (refsOf mdAll) d.1                       -- line 1665
      let r6 := releaseRefs (refsOf md) r5.1                         -- source `_emit` releases
      { bufs := fun v => (bufs' v).tail
        emits := s.emits.map wake ++ [(u, if d.2.2.isEmpty then .done else .awaiting d.2.2)]
        count := r6.1
        nextTok := s.nextTok + d.2.2.length
        pending := s.pending ++ d.2.2.map (fun t => (t, mdAll))
        arrs := arrs'
        outs := s.outs ++ [tup]
        fired := s.fired ++ d.2.1 ++ r5.2 ++ r6.2 }
    else
      let r3 := releaseRefs (refsOf md) c2                           -- source `_emit` releases
      { s with
        bufs := bufs'
        arrs := arrs'
        count := r3.1
        fired := s.fired ++ r3.2
        emits := s.emits ++ [(u, if (s.bufs u ++ [e]).length > cfg.maxsize then .blocked else .done)] }
  else s

/-- remove the first pending invocation with token `tok` -/
def takeTok (tok : Tok) : List (Tok × Meta) → Option (Meta × List (Tok × Meta))
  | [] => none
  | p :: ps =>
    if p.1 = tok then some (p.2, ps)
    else (takeTok tok ps).map (fun r => (r.1, p :: r.2))

def sinkDone {α : Type} (s : St α) (tok : Tok) : St α :=
  match takeTok tok s.pending with
  | none => s
  | some (md, rest) =>
    let r := releaseRefs (refsOf md) s.count
    { s with pending := rest, count := r.1, fired := s.fired ++ r.2, emits := s.emits.map (finishTok tok) }

def step {α : Type} (cfg : Cfg) (s : St α) : Act α → St α
  | .arrive u x md => arrive cfg s u x md
  | .sinkDone tok => sinkDone s tok

def init (α : Type) : St α := {}

def run {α : Type} (cfg : Cfg) (as : List (Act α)) : St α := as.foldl (step cfg) (init α)

/-- number of producers of upstream `u` waiting on the condition -/
def blockedCount {α : Type} (s : St α) (u : Nat) : Nat :=
  (s.emits.filter (fun e => e.1 = u ∧ e.2 = .blocked)).length

/-- everything upstream `u` delivers during the action list, in order -/
def arrivalsOf {α : Type} (cfg : Cfg) (u : Nat) (as : List (Act α)) : List (Entry α) :=
  as.filterMap fun
    | .arrive v x md => if v = u ∧ v < cfg.k then some ⟨x, md⟩ else none
    | .sinkDone _ => none

/-- Producer discipline, weakest form: the producer of upstream `u` does not call `emit` again while an earlier
emission of its own is still waiting on the condition. -/
def Disciplined {α : Type} (s : St α) : Act α → Prop
  | .arrive u _ _ => ∀ e ∈ s.emits, e.1 = u → e.2 ≠ .blocked
  | .sinkDone _ => True

/-- Producer discipline as in `sources.py` (`await asyncio.gather(*self._emit(x))` before reading more): at most
one outstanding emission per upstream. -/
def Awaits {α : Type} (s : St α) : Act α → Prop
  | .arrive u _ _ => ∀ e ∈ s.emits, e.1 = u → e.2 = .done
  | .sinkDone _ => True

/-- every action of the list is taken in a state where predicate `P` allows it -/
def RunWith {α : Type} (P : St α → Act α → Prop) (cfg : Cfg) : St α → List (Act α) → Prop
  | _, [] => True
  | s, a :: as => P s a ∧ RunWith P cfg (step cfg s a) as

end StreamzVerif.AsyncZip
