/-
Model of the event-loop / mode configuration done by `Stream.__init__`
(streamz/core.py 38-61 and 244-318).  Core Lean only.

    def __init__(self, upstream=None, upstreams=None, stream_name=None,
                 loop=None, asynchronous=None, ensure_io_loop=False):
        ...
        self.upstreams = [...]                                   # 250-255
        self._set_asynchronous(asynchronous)                     # 257   step 1
        self._set_loop(loop)                                     # 258   step 2
        if ensure_io_loop and not self.loop [and self.asynchronous is None]:
            self._set_asynchronous(False)                        # 259-260 step 3
        if self.loop is None and self.asynchronous is not None:
            self._set_loop(get_io_loop(self.asynchronous))       # 261-262 step 4
        for upstream in self.upstreams:
            if upstream: upstream.downstreams.add(self)          # 264-266 registration

The bracketed conjunct of step 3 is the repair (fix-1.diff); `World.legacy = true`
selects the code without it (the unchanged tree).

    def _set_loop(self, loop):                                   # 268-276
        self.loop = None
        if loop is not None: self._inform_loop(loop)
        else:
            for upstream in self.upstreams:
                if upstream and upstream.loop:
                    self.loop = upstream.loop; break

    def _inform_loop(self, loop):                                # 278-292
        if self.loop is not None:
            if self.loop is not loop: raise ValueError("Two different event loops active")
        else:
            self.loop = loop
            for upstream in self.upstreams:   upstream._inform_loop(loop)
            for downstream in self.downstreams: downstream._inform_loop(loop)

`_set_asynchronous` / `_inform_asynchronous` (294-318) have the same shape; the
inheritance test there is truthiness (`upstream.asynchronous`), so only `True`
is copied to a child.

Nodes are numbered in construction order.  Only the upstream lists are stored:
a node is added to its upstreams' `downstreams` (an insertion-ordered set) at
the very end of a successful `__init__`, hence the downstreams of `u` are the
later nodes having `u` among their upstreams, in construction order, and the
node under construction is not yet a downstream of anybody.  (Weak references:
the harness keeps every node alive.  `connect()`/`disconnect()` do not touch
loop or mode and are not modelled.)  A construction that raises leaves the new
object unreachable (garbage), but the labels written by the percolation before
the raise stay: the model keeps them.
-/
namespace StreamzVerif.LoopCfg

/-- Identity classes of event loops.  `current` is `IOLoop.current()` of the
caller (all constructions of one history happen on the same caller loop),
`background` the shared loop of `_io_loops`, `dask` the loop of the default
Dask client, `explicit k` any other loop object handed in by the user. -/
inductive Loop
  | current | background | dask | explicit (k : Nat)
  deriving DecidableEq, Repr

inductive Outcome
  | ok          -- `__init__` returned
  | raised      -- ValueError from `_inform_loop` / `_inform_asynchronous`
  | outOfFuel   -- artefact of the fuel-bounded recursion; `construct_total` shows it never happens
  deriving DecidableEq, Repr

/-- `lab[i := v]` -/
def setAt {α : Type} (lab : Nat → Option α) (i : Nat) (v : Option α) : Nat → Option α :=
  fun j => if j = i then v else lab j

/-- `_inform_loop` / `_inform_asynchronous` started on the nodes of `stack`
(depth first, upstreams before downstreams, left to right): the recursive calls
still to be made are kept on an explicit stack, `nb i` is `upstreams ++ downstreams`
of node `i`.  Returns the labels as they are when the call returns or raises. -/
def inform {α : Type} [DecidableEq α] (nb : Nat → List Nat) (v : α) :
    Nat → List Nat → (Nat → Option α) → (Nat → Option α) × Outcome
  | _, [], lab => (lab, .ok)
  | 0, _ :: _, lab => (lab, .outOfFuel)
  | fuel + 1, i :: rest, lab =>
    match lab i with
    | some x => if x = v then inform nb v fuel rest lab else (lab, .raised)
    | none => inform nb v fuel (nb i ++ rest) (setAt lab i (some v))

/-- Sum of the degrees of the nodes `< k`. -/
def degTotal (nb : Nat → List Nat) : Nat → Nat
  | 0 => 0
  | k + 1 => degTotal nb k + (nb k).length

structure World where
  /-- upstream lists, one per constructed node -/
  ups : List (List Nat)
  loop : Nat → Option Loop
  asyn : Nat → Option Bool
  /-- `len(_io_loops)`: background loop threads started so far -/
  bg : Nat
  /-- a default Dask client exists (`_dask_default_client()` succeeds) -/
  dask : Bool
  /-- the unchanged step 3 (without `and self.asynchronous is None`) -/
  legacy : Bool

def World.size (w : World) : Nat := w.ups.length
def World.upsOf (w : World) (i : Nat) : List Nat := w.ups.getD i []
/-- registered downstreams of `i`, in registration (= construction) order -/
def World.downsOf (w : World) (i : Nat) : List Nat :=
  if i < w.size then (List.range w.size).filter (fun d => decide (i ∈ w.upsOf d)) else []

def World.empty (dask legacy : Bool) : World :=
  { ups := [], loop := fun _ => none, asyn := fun _ => none, bg := 0, dask := dask, legacy := legacy }

/-- Arguments of one `Stream.__init__` call. -/
structure Args where
  ups : List Nat
  loop : Option Loop
  asyn : Option Bool
  ensure : Bool

/-- Neighbours seen by the percolation while node `w.size` is under construction. -/
def nbDuring (w : World) (a : Args) (i : Nat) : List Nat :=
  (if i = w.size then a.ups else w.upsOf i) ++ w.downsOf i

def fuelFor (w : World) (a : Args) : Nat := 2 + degTotal (nbDuring w a) (w.size + 1)

/-- `_set_loop(arg)` on the new node `n`. -/
def setLoop (nb : Nat → List Nat) (fuel : Nat) (ups : List Nat) (n : Nat) (arg : Option Loop)
    (lab : Nat → Option Loop) : (Nat → Option Loop) × Outcome :=
  let lab0 := setAt lab n none
  match arg with
  | some l => inform nb l fuel [n] lab0
  | none => (setAt lab0 n (ups.findSome? lab0), .ok)

/-- `_set_asynchronous(arg)` on the new node `n`. -/
def setAsyn (nb : Nat → List Nat) (fuel : Nat) (ups : List Nat) (n : Nat) (arg : Option Bool)
    (lab : Nat → Option Bool) : (Nat → Option Bool) × Outcome :=
  let lab0 := setAt lab n none
  match arg with
  | some b => inform nb b fuel [n] lab0
  | none => (setAt lab0 n (if ups.any (fun u => lab0 u == some true) then some true else none), .ok)

/-- `get_io_loop(asynchronous)`: the loop and the new `len(_io_loops)`. -/
def getIoLoop (asyn : Bool) (dask : Bool) (bg : Nat) : Loop × Nat :=
  if asyn then (.current, bg)
  else if dask then (.dask, bg)
  else (.background, if bg = 0 then 1 else bg)

/-- Step 3 applies? -/
def forceSync (w : World) (a : Args) (lp : Option Loop) (as : Option Bool) : Bool :=
  a.ensure && lp.isNone && (w.legacy || as.isNone)

/-- step 1 (line 257): `self._set_asynchronous(asynchronous)` -/
def step1 (w : World) (a : Args) : (Nat → Option Bool) × Outcome :=
  setAsyn (nbDuring w a) (fuelFor w a) a.ups w.size a.asyn w.asyn

/-- step 2 (line 258): `self._set_loop(loop)` -/
def step2 (w : World) (a : Args) : (Nat → Option Loop) × Outcome :=
  setLoop (nbDuring w a) (fuelFor w a) a.ups w.size a.loop w.loop

/-- step 3 (lines 259-260): `if ensure_io_loop and not self.loop [and self.asynchronous is None]:
self._set_asynchronous(False)` -/
def step3 (w : World) (a : Args) : (Nat → Option Bool) × Outcome :=
  if forceSync w a ((step2 w a).1 w.size) ((step1 w a).1 w.size) then
    setAsyn (nbDuring w a) (fuelFor w a) a.ups w.size (some false) (step1 w a).1
  else ((step1 w a).1, .ok)

/-- step 4 (lines 261-262): `if self.loop is None and self.asynchronous is not None:
self._set_loop(get_io_loop(self.asynchronous))`; also the new `len(_io_loops)`. -/
def step4 (w : World) (a : Args) : ((Nat → Option Loop) × Outcome) × Nat :=
  match (step2 w a).1 w.size, (step3 w a).1 w.size with
  | none, some b =>
    (setLoop (nbDuring w a) (fuelFor w a) a.ups w.size (some (getIoLoop b w.dask w.bg).1) (step2 w a).1,
     (getIoLoop b w.dask w.bg).2)
  | _, _ => (((step2 w a).1, .ok), w.bg)

/-- One `Stream.__init__`.  On `ok` the new node has index `w.size`; otherwise the graph is
unchanged and the labels are as the raising percolation left them. -/
def construct (w : World) (a : Args) : World × Outcome :=
  if (step1 w a).2 ≠ .ok then ({ w with asyn := (step1 w a).1 }, (step1 w a).2)
  else if (step2 w a).2 ≠ .ok then ({ w with asyn := (step1 w a).1, loop := (step2 w a).1 }, (step2 w a).2)
  else if (step3 w a).2 ≠ .ok then ({ w with asyn := (step3 w a).1, loop := (step2 w a).1 }, (step3 w a).2)
  else if (step4 w a).1.2 ≠ .ok then
    ({ w with asyn := (step3 w a).1, loop := (step4 w a).1.1, bg := (step4 w a).2 }, (step4 w a).1.2)
  else
    ({ w with ups := w.ups ++ [a.ups], asyn := (step3 w a).1, loop := (step4 w a).1.1, bg := (step4 w a).2 }, .ok)

/-- A history of constructions; outcomes in order. -/
def runOps : World → List Args → World × List Outcome
  | w, [] => (w, [])
  | w, a :: as =>
    let r := construct w a
    let rs := runOps r.1 as
    (rs.1, r.2 :: rs.2)

end StreamzVerif.LoopCfg
