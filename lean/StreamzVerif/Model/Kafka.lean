/-!
# Model of `FromKafkaBatched` (streamz/sources.py 483-603) against a Kafka broker

One record per topic partition holds both the broker side (watermarks, the
consumer group's committed offset) and the process side of that partition
(`self.positions[p]`, whether `p < self.npartitions`, the batches emitted by the
running incarnation together with "has the RefCounter of this batch reached 0").

Python being modelled (line numbers of streamz/sources.py):

* 512-515 `commit(_part)`: `consumer.commit(offsets=[TopicPartition(topic, part_no, offset + 1)])`
  where `offset` is the batch's `high`; 517-520 `checkpoint_emit`: every batch is
  emitted with `RefCounter(cb = commit)`; the callback runs when the count reaches 0
  (core.py 100-112), i.e. when the last holder downstream released it  -> `completePart`.
* a failure below the source while a batch is handled (`fail`): `Stream._emit` (core.py 447-460)
  releases the reference taken for a downstream only after its `update` returned, so an exception
  leaves the counter above zero for ever -> `failPart`; the batch is emitted from its own loop
  callback (580), so the polling loop goes on.
* 522-542 start of `poll_kafka`: `npartitions` from `list_topics` unless given,
  `positions = [0]*n`, then `positions[tp.partition] = tp.offset` from
  `consumer.committed(tps)` (`-1001` when the group has no offset)            -> `restartPart`.
* 547-555 `refresh_partitions`: newly seen partitions are appended to `positions`   -> `discoverPart`
  (the model is of the repaired code: the appended entries are the group's committed
  offsets, see fix-1.diff; the unrepaired code appends `-1001`).
* 557-576 the per-partition body of the loop                                   -> `pollPart`.
* 577 `consumer_params['auto.offset.reset'] = 'earliest'` after the first iteration -> `resetLatest := false`.
* 719-747 `get_message_batch` returns the messages with offsets `low..high`     -> `batchOffsets`.

Core Lean only.
-/
namespace StreamzVerif.Kafka

/-- librdkafka's OFFSET_INVALID: "no committed offset". -/
def NONE : Int := -1001

/-- One emitted batch `(partition, lo, hi)` of the running incarnation; `done` = its
reference counter reached zero (every downstream holder released it). -/
structure Batch where
  lo : Int
  hi : Int
  done : Bool
  /-- the pipeline below the source raised while handling this batch: the references taken for it
  are never given back (core.py 447-460: `_emit` releases a downstream's reference only after
  `update` returned), so its counter can never reach zero -/
  failed : Bool
deriving Repr, DecidableEq

structure Part where
  /-- broker: low watermark (first retained offset) -/
  low : Int
  /-- broker: high watermark (offset of the next message to be produced) -/
  high : Int
  /-- broker: committed offset of the consumer group, `NONE` if none -/
  committed : Int
  /-- process: `partition < self.npartitions` -/
  known : Bool
  /-- process: `self.positions[partition]` (meaningful only when `known`) -/
  pos : Int
  /-- process: batches emitted for this partition since the last (re)start, oldest first -/
  batches : List Batch
deriving Repr, DecidableEq

structure Cfg where
  /-- `max_batch_size` -/
  maxBatch : Nat
  /-- `refresh_partitions` -/
  refresh : Bool
  /-- `consumer_params['auto.offset.reset'] == 'latest'` as configured (also the default, 493-494) -/
  latest : Bool
  /-- `npartitions` argument (`none` = ask the broker at start) -/
  npartCfg : Option Nat
deriving Repr

structure St where
  parts : List Part
  /-- process: current value of `consumer_params['auto.offset.reset'] == 'latest'` (mutated at 577) -/
  resetLatest : Bool
deriving Repr

inductive Act
  /-- `k` messages appended to partition `p` -/
  | produce (p k : Nat)
  /-- `m` partitions added to the topic -/
  | addPartitions (m : Nat)
  /-- retention deletes the `k` oldest retained messages of partition `p` -/
  | truncate (p k : Nat)
  /-- one body of `while not self.stopped` (544-583) including the emission of `out` -/
  | poll
  /-- the reference counter of batch `i` (oldest first, this incarnation) of partition `p` reaches 0 -/
  | complete (p i : Nat)
  /-- something below the source (get_message_batch in the starmap, a map function, a sink, an awaited
  consumer) raises while handling batch `i` of partition `p`; the polling loop itself is not affected:
  batches are emitted from loop callbacks (`loop.add_callback(checkpoint_emit, part)`, 580), the
  exception ends that callback only -/
  | fail (p i : Nat)
  /-- the process dies and a new one is started with the same group id and the original configuration -/
  | restart
deriving Repr, DecidableEq

/-- A partition just created on the broker, unknown to the process. -/
def freshPart : Part := { low := 0, high := 0, committed := NONE, known := false, pos := NONE, batches := [] }

def producePart (k : Nat) (q : Part) : Part := { q with high := q.high + k }

def truncPart (k : Nat) (q : Part) : Part := { q with low := min q.high (q.low + k) }

/-- 553-555 (repaired): a partition first seen by `refresh_partitions` starts from the group's committed offset. -/
def discoverPart (q : Part) : Part :=
  if q.known then q else { q with known := true, pos := q.committed }

/-- 557-576 for one partition.  `rl` = `consumer_params['auto.offset.reset'] == 'latest'` right now. -/
def pollPart (mb : Nat) (rl : Bool) (q : Part) : Part :=
  if !q.known then q else
  -- 565-568
  let pos1 := if rl && q.pos == NONE then q.high else q.pos
  -- 569-570
  let lowest := max pos1 q.low
  -- 571-572
  let high' := if q.high > lowest + mb then lowest + mb else q.high
  -- 573-576
  if high' > lowest then
    { q with pos := high', batches := q.batches ++ [{ lo := lowest, hi := high' - 1, done := false, failed := false }] }
  else { q with pos := pos1 }

/-- The handling of batch `i` raised: it stays not done for ever (nothing is committed for it). -/
def failPart (i : Nat) (q : Part) : Part :=
  match q.batches[i]? with
  | some b =>
    if b.done then q
    else { q with batches := q.batches.modify i (fun b => { b with failed := true }) }
  | none => q

/-- 512-515 via core.py 100-112: the counter of batch `i` reaches zero -> `commit(high + 1)`.
A batch whose handling raised never gets there. -/
def completePart (i : Nat) (q : Part) : Part :=
  match q.batches[i]? with
  | some b =>
    if b.done || b.failed then q
    else { q with batches := q.batches.modify i (fun b => { b with done := true }), committed := b.hi + 1 }
  | none => q

/-- 528-542 in a fresh process: nothing in flight, position = committed offset (or `NONE`). -/
def restartPart (known : Bool) (q : Part) : Part :=
  { q with known := known, pos := q.committed, batches := [] }

def step (cfg : Cfg) (s : St) : Act → St
  | .produce p k => { s with parts := s.parts.modify p (producePart k) }
  | .addPartitions m => { s with parts := s.parts ++ List.replicate m freshPart }
  | .truncate p k => { s with parts := s.parts.modify p (truncPart k) }
  | .poll =>
    { parts := s.parts.map (fun q => pollPart cfg.maxBatch s.resetLatest (if cfg.refresh then discoverPart q else q)),
      resetLatest := false }
  | .complete p i => { s with parts := s.parts.modify p (completePart i) }
  | .fail p i => { s with parts := s.parts.modify p (failPart i) }
  | .restart =>
    { parts := s.parts.mapIdx (fun j q => restartPart (decide (j < cfg.npartCfg.getD s.parts.length)) q),
      resetLatest := cfg.latest }

def run (cfg : Cfg) (s : St) (acts : List Act) : St := acts.foldl (step cfg) s

/-- A topic with `n` empty partitions, no committed offsets, no process yet. -/
def init (n : Nat) : St := { parts := List.replicate n freshPart, resetLatest := false }

/-- 719-747: the offsets `get_message_batch` returns for a batch (`lo, lo+1, …, hi`). -/
def batchOffsets (b : Batch) : List Int := (List.range (b.hi + 1 - b.lo).toNat).map (fun (i : Nat) => b.lo + Int.ofNat i)

/-- The batches `a` adds to partition `j` (what the poll emits downstream). -/
def emittedBy (cfg : Cfg) (s : St) (a : Act) (j : Nat) : List Batch :=
  match a, s.parts[j]?, (step cfg s a).parts[j]? with
  | .poll, some q, some q' => q'.batches.drop q.batches.length
  | _, _, _ => []

end StreamzVerif.Kafka
