import StreamzVerif.Model.AsyncBuffer
/-!
# Fine-grained transition system of `map_async(func, parallelism=p)` — the INSERT PATH (streamz/core.py l. 723-838)

Model/AsyncBuffer.lean (section "map_async") describes the node at *settled* granularity and ASSUMES that the insert
jobs waiting for a work slot are admitted in arrival order (its `waiting` list is FIFO).  Here that assumption is
discharged: one step = ONE HANDLE of the asyncio event loop or one external action, the loop's FIFO ready queue
(`BaseEventLoop._ready`), `asyncio.Lock` and `asyncio.Queue` are explicit, and the order is a THEOREM
(Props/MapAsyncFine.lean) about every action sequence — there is no scheduling hypothesis.

Context:  un-awaited producer(s) -> map_async(func, parallelism=p) -> consumer whose `update` returns an awaitable.

What is explicit (CPython 3.12 `asyncio/base_events.py`, `locks.py`, `queues.py`, `tasks.py`; confirmed by stepping the
real node one ready handle at a time, harness/corr_mapasyncfine.py):

* **ready queue** `ready : List H`: `call_soon` appends, `_run_once` pops from the front.  `tick` runs the head.
  Handles that exist in the real loop but neither change nor enqueue anything modelled (the harness's own task, the
  self-pipe read) are not in the list; every handle that can enqueue a modelled handle is.
* **`update`** (l. 785-789): `if not self.work_task:` create the worker task (its first step is queued), retain,
  `create_task(self._insert_job(x, metadata))` — the insert task's first step `insFirst i` is queued behind it.
* **`asyncio.Lock`** (`locks.py` l. 92-155).  `acquire`: `if not self._locked and (self._waiters is None or
  all(w.cancelled() for w in self._waiters))` -> take it WITHOUT suspending; otherwise append a future to `_waiters`
  and suspend.  `release`: `_locked = False; _wake_up_first()`: `fut = next(iter(self._waiters)); if not fut.done():
  fut.set_result(True)` — the lock is NOT handed over, the woken waiter's resumption `insWake k` is only queued;
  the waiter stays in `_waiters` until it runs (`finally: self._waiters.remove(fut)`, then `self._locked = True`),
  so a newcomer that runs in between finds `_waiters` non-empty and queues up behind it.  Nothing is ever cancelled
  (no cancellation in `map_async`; `all(w.cancelled() ...)` is "no waiters").
  `holder = some j` <-> `_locked` between two handles: j is suspended in `asyncio.sleep(0)` inside `_wait_for_work_slot`.
  `lockq` = `_waiters` as (job, future-resolved).
* **`_wait_for_work_slot`** (l. 824-826): `while self.work_queue.full(): await asyncio.sleep(0)` — `sleep(0)` yields
  once: `Task.__step` re-queues itself with `call_soon` (`insPoll j` goes to the END of the ready queue).
* **insert** (l. 832-835), all in the handle that found `not full()`: `func(x)` (the job STARTS: `started`),
  `create_task(coro)` queues `jobFirst j`; `await work_queue.put(..)` does not suspend (`put` only waits while
  `full()`, l. 119-139 of `queues.py`); `put_nowait` appends and `_wakeup_next(self._getters)` resolves the worker's
  getter (queues `worker`); leaving `async with` releases the lock (queues `insWake k` for the first waiter); the
  coroutine returns, the task — the awaitable `update` returned — is done at once, its done-callback (tornado's
  `multi_future` callback that completes the producer's `emit` awaitable) is queued: `ack j`.
* **`work_callback`** (l. 808-822): `get()` on an empty queue registers a getter and suspends (`getting true`);
  woken, `while self.empty()` is re-evaluated; `get_nowait` pops the head, `task_done()` — the slot is FREE from here
  on, BEFORE the task is awaited; `await task` does not suspend when the task is already done; otherwise the task's
  completion queues the worker's wake-up.  `_emit(result)`; `await asyncio.gather(*results)`: the consumer's
  completion (`downDone`) queues gather's `_done_callback` (`gatherCb`), which resolves the outer future and queues the
  worker's wake-up; `_release_refs`; loop.
* **user job**: `func(x)` returns a coroutine that awaits a future the environment resolves (`jobDone j`).
  `jobFirst j` runs it up to that await (or to completion if the future is already resolved); resolving the future
  of a suspended job queues `jobWake j`, which finishes the task.

Variants (`Cfg.variant`): `.locked` is the code as it is; `.fastPath` the "optimisation" that takes the lock only when
`work_queue.full()` at the first step (and inserts after leaving the `async with`); `.polling` the pre-repair code in
which every waiting job polls concurrently, no lock.  The theorems are about `.locked`; the other two are refuted on
concrete schedules.

Not modelled: reference counts (Model/AsyncBuffer.lean and its proofs), failing jobs, cancellation, `stop()`, a
synchronous consumer (`downAsync = false`).
-/
namespace StreamzVerif.MapAsyncFine

inductive Variant where
  | locked | fastPath | polling
deriving Repr, DecidableEq

structure Cfg where
  /-- `asyncio.Queue(maxsize=parallelism)`; 0 = unbounded -/
  p : Nat
  variant : Variant := .locked
deriving Repr, DecidableEq

/-- the code as it is: `async with self._insert_lock:` around slot wait, `func(x)` and `put` -/
abbrev locked (p : Nat) : Cfg := ⟨p, .locked⟩

/-- A handle in the loop's ready queue. -/
inductive H where
  /-- first step of the task `_insert_job(x_j)` -/
  | insFirst (j : Nat)
  /-- resumption of insert job `j`, whose `Lock.acquire` future has been resolved by a `release` -/
  | insWake (j : Nat)
  /-- resumption of insert job `j` after `asyncio.sleep(0)` in `_wait_for_work_slot` -/
  | insPoll (j : Nat)
  /-- done-callback of insert task `j`: the producer's `emit` awaitable completes -/
  | ack (j : Nat)
  /-- a step of the task `work_callback` (first step or any wake-up) -/
  | worker
  /-- first step of the user's job task `j` -/
  | jobFirst (j : Nat)
  /-- resumption of user job `j` after its future was resolved -/
  | jobWake (j : Nat)
  /-- `asyncio.gather`'s `_done_callback` on the consumer's awaitable -/
  | gatherCb
deriving Repr, DecidableEq

inductive JSt where
  /-- task created, first step not run yet -/
  | created
  /-- ... and the environment has already resolved the future it is going to await -/
  | createdResolved
  /-- suspended on its future -/
  | running
  /-- future resolved, `jobWake` queued -/
  | resolved
  /-- task finished -/
  | done
deriving Repr, DecidableEq

/-- State of the coroutine `work_callback` between two handles. -/
inductive W where
  /-- `self.work_task` is `None` (no `update` yet) -/
  | absent
  /-- task created, first step queued -/
  | starting
  /-- suspended in `await self.work_queue.get()`; `registered` = its getter future is still in `Queue._getters`
  (unresolved); `false` = a `put_nowait` has resolved it, the wake-up is queued -/
  | getting (registered : Bool)
  /-- suspended in `result = await task` of job `j`, which has been REMOVED from the work queue -/
  | awaiting (j : Nat)
  /-- suspended in `await asyncio.gather(*results)` after `_emit(result of j)`; `busy` = the consumer has not
  completed its awaitable yet -/
  | emitting (j : Nat) (busy : Bool)
deriving Repr, DecidableEq

/-- the job the worker has taken out of the queue and not emitted yet -/
def W.pre : W → List Nat
  | .awaiting j => [j]
  | _ => []

structure FSt (α : Type) where
  /-- `loop._ready` (modelled handles), front first -/
  ready : List H := []
  /-- history: arrivals `(id, value)`, id = arrival index -/
  ins : List (Nat × α) := []
  /-- the insert job that holds `_insert_lock` across a `sleep(0)` (`_locked` between two handles) -/
  holder : Option Nat := none
  /-- `_insert_lock._waiters`: (job, its future has been resolved) -/
  lockq : List (Nat × Bool) := []
  /-- `work_queue._queue` -/
  queue : List Nat := []
  worker : W := .absent
  /-- every started job with its status, in start order -/
  jobs : List (Nat × JSt) := []
  /-- history: the order in which `func` was called = elements entered the work queue = insert tasks completed -/
  started : List Nat := []
  /-- history: elements whose result has been handed downstream, in order -/
  outs : List Nat := []
  /-- history: elements the worker has released after the consumer finished -/
  fin : List Nat := []
  /-- history: producers notified (`emit` awaitable complete) -/
  acked : List Nat := []
deriving Repr

inductive FAct (α : Type) where
  /-- a producer calls `emit(x)` and does not await the result -/
  | arrive (x : α)
  /-- the loop runs the handle at the front of its ready queue -/
  | tick
  /-- the environment resolves the future user job `j` awaits -/
  | jobDone (j : Nat)
  /-- the consumer completes the awaitable of the current emission -/
  | downDone
deriving Repr, DecidableEq

/-- `asyncio.Queue.full`: `if self._maxsize <= 0: return False else: return self.qsize() >= self._maxsize`. -/
def full {γ : Type} (p : Nat) (q : List γ) : Bool := p != 0 && decide (p ≤ q.length)

def jst {α : Type} (s : FSt α) (j : Nat) : Option JSt := s.jobs.lookup j

def setJ (j : Nat) (st : JSt) (jobs : List (Nat × JSt)) : List (Nat × JSt) :=
  jobs.map (fun e => if e.1 = j then (j, st) else e)

/-- `coro = self.func(x); task = self._create_task(coro); self.work_queue.put_nowait((task, metadata))`
(l. 833-835; `queues.py` `put_nowait`: `_put`, `_wakeup_next(self._getters)`). -/
def insertNow {α : Type} (s : FSt α) (j : Nat) : FSt α :=
  let s1 := { s with started := s.started ++ [j], jobs := s.jobs ++ [(j, .created)], queue := s.queue ++ [j],
                     ready := s.ready ++ [.jobFirst j] }
  match s.worker with
  | .getting true => { s1 with worker := .getting false, ready := s1.ready ++ [.worker] }
  | _ => s1

/-- `Lock.release`: `self._locked = False; self._wake_up_first()`. -/
def releaseLock {α : Type} (s : FSt α) : FSt α :=
  match s.lockq with
  | (k, false) :: rest => { s with holder := none, lockq := (k, true) :: rest, ready := s.ready ++ [.insWake k] }
  | _ => { s with holder := none }

/-- the insert coroutine returns: the task is done, its done-callback is queued -/
def finishInsert {α : Type} (s : FSt α) (j : Nat) : FSt α := { s with ready := s.ready ++ [.ack j] }

/-- Insert job `j` evaluates `_wait_for_work_slot` (holding the lock, except in the `.polling` variant) and, if
there is a slot, inserts. -/
def slotWait {α : Type} (c : Cfg) (s : FSt α) (j : Nat) : FSt α :=
  if full c.p s.queue then
    { s with holder := (if c.variant = .polling then s.holder else some j), ready := s.ready ++ [.insPoll j] }
  else
    match c.variant with
    | .locked => finishInsert (releaseLock (insertNow s j)) j
    | .fastPath => finishInsert (insertNow (releaseLock s) j) j
    | .polling => finishInsert (insertNow s j) j

/-- `async with self._insert_lock:` — `Lock.acquire` at the first step of insert job `j`. -/
def tryLock {α : Type} (c : Cfg) (s : FSt α) (j : Nat) : FSt α :=
  if s.holder = none ∧ s.lockq = [] then slotWait c s j
  else { s with lockq := s.lockq ++ [(j, false)] }

/-- `work_callback` obtained the result of job `j`: `_emit(result)`, suspend in `gather`. -/
def emitNow {α : Type} (s : FSt α) (j : Nat) : FSt α :=
  { s with outs := s.outs ++ [j], worker := .emitting j true }

/-- `task, metadata = await self.work_queue.get(); self.work_queue.task_done(); result = await task`. -/
def getNext {α : Type} (s : FSt α) : FSt α :=
  match s.queue with
  | [] => { s with worker := .getting true }
  | j :: rest =>
    if jst s j = some .done then emitNow { s with queue := rest } j
    else { s with queue := rest, worker := .awaiting j }

/-- the task of user job `j` finishes: done-callbacks are queued (the worker's wake-up if it awaits this task) -/
def finishJob {α : Type} (s : FSt α) (j : Nat) : FSt α :=
  let s1 := { s with jobs := setJ j .done s.jobs }
  if s.worker = .awaiting j then { s1 with ready := s1.ready ++ [.worker] } else s1

/-- Run one handle (already removed from the ready queue).  `none` = this handle cannot exist in this state. -/
def runH {α : Type} (c : Cfg) (s : FSt α) : H → Option (FSt α)
  | .insFirst j =>
    match c.variant with
    | .locked => some (tryLock c s j)
    | .fastPath => if full c.p s.queue then some (tryLock c s j) else some (finishInsert (insertNow s j) j)
    | .polling => some (slotWait c s j)
  | .insWake j =>
    -- `finally: self._waiters.remove(fut)` (`deque.remove`: the first occurrence); `self._locked = True`; continue
    -- with `_wait_for_work_slot`
    some (slotWait c { s with lockq := s.lockq.eraseP (fun e => e.1 == j) } j)
  | .insPoll j => some (slotWait c s j)
  | .ack j => some { s with acked := s.acked ++ [j] }
  | .worker =>
    match s.worker with
    | .absent => none
    | .starting => some (getNext s)
    | .getting _ => some (getNext s)
    | .awaiting j => some (emitNow s j)
    | .emitting j _ => some (getNext { s with fin := s.fin ++ [j] })
  | .jobFirst j =>
    match jst s j with
    | some .created => some { s with jobs := setJ j .running s.jobs }
    | some .createdResolved => some (finishJob s j)
    | _ => none
  | .jobWake j => some (finishJob s j)
  | .gatherCb => some { s with ready := s.ready ++ [.worker] }

/-- One transition; `none` = not enabled. -/
def step {α : Type} (c : Cfg) (s : FSt α) : FAct α → Option (FSt α)
  | .arrive x =>
    let i := s.ins.length
    let s1 : FSt α := match s.worker with
              | .absent => { s with worker := .starting, ready := s.ready ++ [H.worker] }
              | _ => s
    some { s1 with ins := s1.ins ++ [(i, x)], ready := s1.ready ++ [H.insFirst i] }
  | .tick =>
    match s.ready with
    | [] => none
    | h :: rest => runH c { s with ready := rest } h
  | .jobDone j =>
    match jst s j with
    | some .created => some { s with jobs := setJ j .createdResolved s.jobs }
    | some .running => some { s with jobs := setJ j .resolved s.jobs, ready := s.ready ++ [.jobWake j] }
    | _ => none
  | .downDone =>
    match s.worker with
    | .emitting j true => some { s with worker := .emitting j false, ready := s.ready ++ [.gatherCb] }
    | _ => none

def run {α : Type} (c : Cfg) : FSt α → List (FAct α) → Option (FSt α)
  | s, [] => some s
  | s, a :: rest => (step c s a).bind (fun s' => run c s' rest)

def init (α : Type) : FSt α := {}

/-! ## Projections of the ready queue and the abstraction to the settled model's `waiting` list -/

/-- insert jobs whose first step has not run yet, in ready-queue order -/
def fresh : List H → List Nat
  | [] => []
  | .insFirst j :: r => j :: fresh r
  | _ :: r => fresh r

def wakes : List H → List Nat
  | [] => []
  | .insWake j :: r => j :: wakes r
  | _ :: r => wakes r

def polls : List H → List Nat
  | [] => []
  | .insPoll j :: r => j :: polls r
  | _ :: r => polls r

def workers : List H → Nat
  | [] => 0
  | .worker :: r => workers r + 1
  | _ :: r => workers r

/-- The settled model's `waiting` list (ids): the lock holder, the lock's waiter queue, the insert jobs that have
not run their first step — in that order. -/
def waitingIds {α : Type} (s : FSt α) : List Nat :=
  s.holder.toList ++ s.lockq.map Prod.fst ++ fresh s.ready

end StreamzVerif.MapAsyncFine
