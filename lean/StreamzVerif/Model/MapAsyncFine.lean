import StreamzVerif.Model.AsyncBuffer
/-!
# Fine-grained transition system of `map_async(func, parallelism=p)` — the INSERT PATH (streamz/core.py l. 723-838)

Model/AsyncBuffer.lean (section "map_async") describes the node at *settled* granularity and ASSUMES that the insert
jobs waiting for a work slot are admitted in arrival order (its `waiting` list is FIFO).  Here that assumption is
discharged: one step = ONE HANDLE of the asyncio event loop or one external action, the loop's FIFO ready queue
(`BaseEventLoop._ready`), `asyncio.Lock` and `asyncio.Queue` are explicit, and the order is a THEOREM
(Props/MapAsyncFine.lean) about every action sequence — there is no scheduling hypothesis.

Context:  un-awaited producer(s) -> map_async(func, parallelism=p) -> consumer whose `update` returns an awaitable.

What is explicit (CPython 3.12 `asyncio/base_events.py`, `locks.py`, `queues.py`, `tasks.py`; confirmed by stepping the
real node one ready handle at a time, harness/corr_mapasyncfine.py):

* **ready queue** `ready : List H`: `call_soon` appends, `_run_once` pops from the front.  `tick` runs the head.
  Handles that exist in the real loop but neither change nor enqueue anything modelled (the harness's own task, the
  self-pipe read) are not in the list; every handle that can enqueue a modelled handle is.
* **`update`** (l. 788-792): `if not self.work_task:` create a worker task (its first step is queued), retain,
  `create_task(self._insert_job(x, metadata))` — the insert task's first step `insFirst i` is queued behind it.
* **worker life cycle** (l. 768-786, 811-816; repairs 63350ae and 6edff40).  `workers` lists every worker task ever
  created, in creation order (worker `w` = the `w`-th `_create_work_task`), each with its own `asyncio.Event`
  (`stop`); `_last_worker` is always the last one created, so the `previous` of worker `w` is worker `w - 1`;
  `workTask` is the handle `self.work_task` (index of its task, `none` = `None`).
  `start()`: `if self.work_task is None or self.work_task[1].done():` create a worker, else nothing.
  `stop()`: set the event of `work_task`, `work_task = None` (with `work_task is None` it raises `TypeError`: not
  enabled).  A worker's first step: `if previous is not None and not previous.done(): await asyncio.wait([previous])`
  (`waitPrev false`; the predecessor's completion queues `_wait`'s `_on_completion` callback `waitCb w`, which
  resolves the waiter future and queues the worker's wake-up: `waitPrev true`); then `while not stop_work.is_set():`
  — the event is looked at ONLY at the top of the loop: a stopped worker still finishes the task it is working on,
  or takes the one it was already waiting for (its getter stays registered), and only then returns (`finished`).
  Variants `Cfg.life`: `.startReplaces` = the tree before 63350ae (`start()` sets the old event and ALWAYS creates a
  worker; no predecessor wait), `.noPredecessorWait` = the tree between the two repairs (a new worker starts taking
  tasks at once).  `Queue._getters` is a FIFO of getter futures (`getters`, by worker): with a single consumer it
  never holds more than one, in the variants several workers can wait in `get()`.
* **`asyncio.Lock`** (`locks.py` l. 92-155).  `acquire`: `if not self._locked and (self._waiters is None or
  all(w.cancelled() for w in self._waiters))` -> take it WITHOUT suspending; otherwise append a future to `_waiters`
  and suspend.  `release`: `_locked = False; _wake_up_first()`: `fut = next(iter(self._waiters)); if not fut.done():
  fut.set_result(True)` — the lock is NOT handed over, the woken waiter's resumption `insWake k` is only queued;
  the waiter stays in `_waiters` until it runs (`finally: self._waiters.remove(fut)`, then `self._locked = True`),
  so a newcomer that runs in between finds `_waiters` non-empty and queues up behind it.  Nothing is ever cancelled
  (no cancellation in `map_async`; `all(w.cancelled() ...)` is "no waiters").
  `holder = some j` <-> `_locked` between two handles: j is suspended in `asyncio.sleep(0)` inside `_wait_for_work_slot`.
  `lockq` = `_waiters` as (job, future-resolved).
* **`_wait_for_work_slot`** (l. 824-826): `while self.work_queue.full(): await asyncio.sleep(0)` — `sleep(0)` yields
  once: `Task.__step` re-queues itself with `call_soon` (`insPoll j` goes to the END of the ready queue).
* **insert** (l. 832-835), all in the handle that found `not full()`: `func(x)` (the job STARTS: `started`),
  `create_task(coro)` queues `jobFirst j`; `await work_queue.put(..)` does not suspend (`put` only waits while
  `full()`, l. 119-139 of `queues.py`); `put_nowait` appends and `_wakeup_next(self._getters)` resolves the worker's
  getter (queues `worker`); leaving `async with` releases the lock (queues `insWake k` for the first waiter); the
  coroutine returns, the task — the awaitable `update` returned — is done at once, its done-callback (tornado's
  `multi_future` callback that completes the producer's `emit` awaitable) is queued: `ack j`.
* **`work_callback`** (l. 808-822): `get()` on an empty queue registers a getter and suspends (`getting true`);
  woken, `while self.empty()` is re-evaluated; `get_nowait` pops the head, `task_done()` — the slot is FREE from here
  on, BEFORE the task is awaited; `await task` does not suspend when the task is already done; otherwise the task's
  completion queues the worker's wake-up.  `_emit(result)`; `await asyncio.gather(*results)`: the consumer's
  completion (`downDone`) queues gather's `_done_callback` (`gatherCb`), which resolves the outer future and queues the
  worker's wake-up; `_release_refs`; loop.
* **user job**: `func(x)` returns a coroutine that awaits a future the environment resolves (`jobDone j`).
  `jobFirst j` runs it up to that await (or to completion if the future is already resolved); resolving the future
  of a suspended job queues `jobWake j`, which finishes the task.

Variants of the insert path (`Cfg.variant`): `.locked` is the code as it is; `.fastPath` the "optimisation" that takes the lock only when
`work_queue.full()` at the first step (and inserts after leaving the `async with`); `.polling` the pre-repair code in
which every waiting job polls concurrently, no lock.  The theorems are about `.locked`; the other two are refuted on
concrete schedules.

Not modelled: reference counts (Model/AsyncBuffer.lean and its proofs), failing jobs (`stop_on_exception`),
cancellation, a synchronous consumer (`downAsync = false`).  The only guards that say "this handle cannot exist in this
state" (`none`): a worker's wake-up while it waits for its predecessor and `_on_completion` has not run, a step of a
finished worker, `_on_completion` for a worker that is not waiting, `jobFirst` of a job whose first step has run.
-/
namespace StreamzVerif.MapAsyncFine

inductive Variant where
  | locked | fastPath | polling
deriving Repr, DecidableEq

/-- worker life cycle: the code as it is, and the two pre-repair mechanisms -/
inductive Life where
  | current | startReplaces | noPredecessorWait
deriving Repr, DecidableEq

structure Cfg where
  /-- `asyncio.Queue(maxsize=parallelism)`; 0 = unbounded -/
  p : Nat
  variant : Variant := .locked
  life : Life := .current
deriving Repr, DecidableEq

/-- the code as it is: `async with self._insert_lock:` around slot wait, `func(x)` and `put`; `start()` creates a worker
only when there is none or the previous one has finished; a new worker waits for its predecessor -/
abbrev locked (p : Nat) : Cfg := { p := p }

/-- A handle in the loop's ready queue. -/
inductive H where
  /-- first step of the task `_insert_job(x_j)` -/
  | insFirst (j : Nat)
  /-- resumption of insert job `j`, whose `Lock.acquire` future has been resolved by a `release` -/
  | insWake (j : Nat)
  /-- resumption of insert job `j` after `asyncio.sleep(0)` in `_wait_for_work_slot` -/
  | insPoll (j : Nat)
  /-- done-callback of insert task `j`: the producer's `emit` awaitable completes -/
  | ack (j : Nat)
  /-- a step of worker task `w` (`work_callback`): first step or any wake-up -/
  | worker (w : Nat)
  /-- `asyncio.wait`'s `_on_completion` callback of worker `w`'s wait for its predecessor -/
  | waitCb (w : Nat)
  /-- first step of the user's job task `j` -/
  | jobFirst (j : Nat)
  /-- resumption of user job `j` after its future was resolved -/
  | jobWake (j : Nat)
  /-- `asyncio.gather`'s `_done_callback` on the consumer's awaitable of worker `w`'s emission -/
  | gatherCb (w : Nat)
deriving Repr, DecidableEq

inductive JSt where
  /-- task created, first step not run yet -/
  | created
  /-- ... and the environment has already resolved the future it is going to await -/
  | createdResolved
  /-- suspended on its future -/
  | running
  /-- future resolved, `jobWake` queued -/
  | resolved
  /-- task finished -/
  | done
deriving Repr, DecidableEq

/-- State of one `work_callback` coroutine between two handles. -/
inductive W where
  /-- task created, first step queued -/
  | starting
  /-- suspended in `await asyncio.wait([previous])`; `woken` = `_on_completion` has run, the wake-up is queued -/
  | waitPrev (woken : Bool)
  /-- suspended in `await self.work_queue.get()`; `registered` = its getter future is still in `Queue._getters`
  (unresolved); `false` = a `put_nowait` has resolved it, the wake-up is queued -/
  | getting (registered : Bool)
  /-- suspended in `result = await task` of job `j`, which has been REMOVED from the work queue -/
  | awaiting (j : Nat)
  /-- suspended in `await asyncio.gather(*results)` after `_emit(result of j)`; `busy` = the consumer has not
  completed its awaitable yet -/
  | emitting (j : Nat) (busy : Bool)
  /-- the coroutine has returned (`stop_work.is_set()` at the top of the loop) -/
  | finished
deriving Repr, DecidableEq

/-- One worker: its `asyncio.Event` and the state of its coroutine. -/
structure Wk where
  stop : Bool := false
  st : W := .starting
deriving Repr, DecidableEq

/-- still waiting to get past its predecessor -/
def W.isPre : W → Bool
  | .starting => true
  | .waitPrev _ => true
  | _ => false

/-- past the predecessor wait and not finished: able to take tasks off the queue / holding one -/
def W.isActive : W → Bool
  | .getting _ => true
  | .awaiting _ => true
  | .emitting _ _ => true
  | _ => false

structure FSt (α : Type) where
  /-- `loop._ready` (modelled handles), front first -/
  ready : List H := []
  /-- history: arrivals `(id, value)`, id = arrival index -/
  ins : List (Nat × α) := []
  /-- the insert job that holds `_insert_lock` across a `sleep(0)` (`_locked` between two handles) -/
  holder : Option Nat := none
  /-- `_insert_lock._waiters`: (job, its future has been resolved) -/
  lockq : List (Nat × Bool) := []
  /-- `work_queue._queue` -/
  queue : List Nat := []
  /-- `work_queue._getters`: the workers whose `get()` registered a future, FIFO -/
  getters : List Nat := []
  /-- every worker task ever created, in creation order (`_last_worker` = the last one) -/
  workers : List Wk := []
  /-- `self.work_task` (index of its task; its event is that worker's `stop`) -/
  workTask : Option Nat := none
  /-- every started job with its status, in start order -/
  jobs : List (Nat × JSt) := []
  /-- history: the order in which `func` was called = elements entered the work queue = insert tasks completed -/
  started : List Nat := []
  /-- history: elements whose result has been handed downstream, in order -/
  outs : List Nat := []
  /-- history: elements a worker has released after the consumer finished -/
  fin : List Nat := []
  /-- history: producers notified (`emit` awaitable complete) -/
  acked : List Nat := []
deriving Repr

inductive FAct (α : Type) where
  /-- a producer calls `emit(x)` and does not await the result -/
  | arrive (x : α)
  /-- the loop runs the handle at the front of its ready queue -/
  | tick
  /-- the environment resolves the future user job `j` awaits -/
  | jobDone (j : Nat)
  /-- the consumer completes the awaitable of the emission of the lowest-numbered worker that has one pending -/
  | downDone
  /-- `map_async.start()` (called directly or reached by `Stream.start()` walking upstream from any node) -/
  | start
  /-- `map_async.stop()` -/
  | stop
deriving Repr, DecidableEq

/-- `asyncio.Queue.full`: `if self._maxsize <= 0: return False else: return self.qsize() >= self._maxsize`. -/
def full {γ : Type} (p : Nat) (q : List γ) : Bool := p != 0 && decide (p ≤ q.length)

def jst {α : Type} (s : FSt α) (j : Nat) : Option JSt := s.jobs.lookup j

def setJ (j : Nat) (st : JSt) (jobs : List (Nat × JSt)) : List (Nat × JSt) :=
  jobs.map (fun e => if e.1 = j then (j, st) else e)

/-! ### workers -/

def stL (l : List Wk) (w : Nat) : W :=
  match l[w]? with
  | some k => k.st
  | none => .finished

def stopL (l : List Wk) (w : Nat) : Bool :=
  match l[w]? with
  | some k => k.stop
  | none => true

def stOf {α : Type} (s : FSt α) (w : Nat) : W := stL s.workers w
def stopOf {α : Type} (s : FSt α) (w : Nat) : Bool := stopL s.workers w

def setSt {α : Type} (s : FSt α) (w : Nat) (x : W) : FSt α :=
  { s with workers := s.workers.modify w (fun k => { k with st := x }) }

/-- `stop_work.set()` on worker `w`'s event -/
def setStop {α : Type} (s : FSt α) (w : Nat) : FSt α :=
  { s with workers := s.workers.modify w (fun k => { k with stop := true }) }

/-- `_create_work_task`: a fresh event, `create_task(self.work_callback(stop_work, self._last_worker))` (first step
queued), `self._last_worker = work_task`; the caller stores the pair in `self.work_task`. -/
def createWorker {α : Type} (s : FSt α) : FSt α :=
  { s with workers := s.workers ++ [{}], workTask := some s.workers.length,
           ready := s.ready ++ [H.worker s.workers.length] }

/-- `Queue._wakeup_next(self._getters)`: `while waiters: waiter = waiters.popleft(); if not waiter.done():
waiter.set_result(None); break` — pop getters up to and including the first unresolved one, resolve it. -/
def wakeGetter {α : Type} (s : FSt α) : List Nat → FSt α
  | [] => { s with getters := [] }
  | g :: rest =>
    if stOf s g = .getting true then
      { setSt s g (.getting false) with getters := rest, ready := s.ready ++ [H.worker g] }
    else wakeGetter s rest

/-- `coro = self.func(x); task = self._create_task(coro); self.work_queue.put_nowait((task, metadata))`
(`queues.py` `put_nowait`: `_put`, `_wakeup_next(self._getters)`). -/
def insertNow {α : Type} (s : FSt α) (j : Nat) : FSt α :=
  wakeGetter { s with started := s.started ++ [j], jobs := s.jobs ++ [(j, .created)], queue := s.queue ++ [j],
                      ready := s.ready ++ [H.jobFirst j] } s.getters

/-- `Lock.release`: `self._locked = False; self._wake_up_first()`. -/
def releaseLock {α : Type} (s : FSt α) : FSt α :=
  match s.lockq with
  | (k, false) :: rest => { s with holder := none, lockq := (k, true) :: rest, ready := s.ready ++ [.insWake k] }
  | _ => { s with holder := none }

/-- the insert coroutine returns: the task is done, its done-callback is queued -/
def finishInsert {α : Type} (s : FSt α) (j : Nat) : FSt α := { s with ready := s.ready ++ [.ack j] }

/-- Insert job `j` evaluates `_wait_for_work_slot` (holding the lock, except in the `.polling` variant) and, if
there is a slot, inserts. -/
def slotWait {α : Type} (c : Cfg) (s : FSt α) (j : Nat) : FSt α :=
  if full c.p s.queue then
    { s with holder := (if c.variant = .polling then s.holder else some j), ready := s.ready ++ [.insPoll j] }
  else
    match c.variant with
    | .locked => finishInsert (releaseLock (insertNow s j)) j
    | .fastPath => finishInsert (insertNow (releaseLock s) j) j
    | .polling => finishInsert (insertNow s j) j

/-- `async with self._insert_lock:` — `Lock.acquire` at the first step of insert job `j`. -/
def tryLock {α : Type} (c : Cfg) (s : FSt α) (j : Nat) : FSt α :=
  if s.holder = none ∧ s.lockq = [] then slotWait c s j
  else { s with lockq := s.lockq ++ [(j, false)] }

/-- worker `w` obtained the result of job `j`: `_emit(result)`, suspend in `gather`. -/
def emitNow {α : Type} (s : FSt α) (w j : Nat) : FSt α :=
  { setSt s w (.emitting j true) with outs := s.outs ++ [j] }

/-- worker `w`: `task, metadata = await self.work_queue.get(); self.work_queue.task_done(); result = await task`. -/
def getNext {α : Type} (s : FSt α) (w : Nat) : FSt α :=
  match s.queue with
  | [] => { setSt s w (.getting true) with getters := s.getters ++ [w] }
  | j :: rest =>
    if jst s j = some .done then emitNow { s with queue := rest } w j
    else setSt { s with queue := rest } w (.awaiting j)

/-- worker `w`'s coroutine returns: the task is done; the successor's `asyncio.wait`, if it is waiting, is told -/
def finishWorker {α : Type} (s : FSt α) (w : Nat) : FSt α :=
  let s1 := setSt s w .finished
  if stOf s (w + 1) = .waitPrev false then { s1 with ready := s1.ready ++ [H.waitCb (w + 1)] } else s1

/-- the top of `while not stop_work.is_set():` — the ONLY place the event is looked at -/
def loopTop {α : Type} (s : FSt α) (w : Nat) : FSt α :=
  if stopOf s w then finishWorker s w else getNext s w

/-- the workers suspended in `await task` of job `j` -/
def awaiters {α : Type} (s : FSt α) (j : Nat) : List Nat :=
  (List.range s.workers.length).filter (fun w => stOf s w == .awaiting j)

/-- the task of user job `j` finishes: done-callbacks are queued (the wake-up of the worker that awaits this task) -/
def finishJob {α : Type} (s : FSt α) (j : Nat) : FSt α :=
  { s with jobs := setJ j .done s.jobs, ready := s.ready ++ (awaiters s j).map H.worker }

/-- the lowest-numbered worker whose emission the consumer has not completed -/
def firstBusy {α : Type} (s : FSt α) : Option (Nat × Nat) :=
  (List.range s.workers.length).findSome? (fun w =>
    match stOf s w with
    | .emitting j true => some (w, j)
    | _ => none)

/-- one step of worker `w`'s task -/
def runWorker {α : Type} (c : Cfg) (s : FSt α) (w : Nat) : Option (FSt α) :=
  match s.workers[w]? with
  | none => none
  | some k =>
    match k.st with
    | .starting =>
      -- `if previous is not None and not previous.done(): await asyncio.wait([previous])`
      if c.life = .current ∧ w ≠ 0 ∧ stOf s (w - 1) ≠ .finished then some (setSt s w (.waitPrev false))
      else some (loopTop s w)
    | .waitPrev true => some (loopTop s w)
    | .waitPrev false => none
    | .getting _ => some (getNext s w)
    | .awaiting j => some (emitNow s w j)
    | .emitting j _ => some (loopTop { s with fin := s.fin ++ [j] } w)
    | .finished => none

/-- Run one handle (already removed from the ready queue).  `none` = this handle cannot exist in this state. -/
def runH {α : Type} (c : Cfg) (s : FSt α) : H → Option (FSt α)
  | .insFirst j =>
    match c.variant with
    | .locked => some (tryLock c s j)
    | .fastPath => if full c.p s.queue then some (tryLock c s j) else some (finishInsert (insertNow s j) j)
    | .polling => some (slotWait c s j)
  | .insWake j =>
    -- `finally: self._waiters.remove(fut)` (`deque.remove`: the first occurrence); `self._locked = True`; continue
    -- with `_wait_for_work_slot`
    some (slotWait c { s with lockq := s.lockq.eraseP (fun e => e.1 == j) } j)
  | .insPoll j => some (slotWait c s j)
  | .ack j => some { s with acked := s.acked ++ [j] }
  | .worker w => runWorker c s w
  | .waitCb w =>
    match stOf s w with
    | .waitPrev false => some { setSt s w (.waitPrev true) with ready := s.ready ++ [H.worker w] }
    | _ => none
  | .jobFirst j =>
    match jst s j with
    | some .created => some { s with jobs := setJ j .running s.jobs }
    | some .createdResolved => some (finishJob s j)
    | _ => none
  | .jobWake j => some (finishJob s j)
  | .gatherCb w => some { s with ready := s.ready ++ [H.worker w] }

/-- `map_async.start()` -/
def startNode {α : Type} (c : Cfg) (s : FSt α) : FSt α :=
  match c.life with
  | .startReplaces =>
    -- `if self.work_task: stop_work.set()`; `self.work_task = self._create_work_task()`
    createWorker (match s.workTask with
                  | some w => setStop s w
                  | none => s)
  | _ =>
    -- `if self.work_task is None or self.work_task[1].done(): self.work_task = self._create_work_task()`
    match s.workTask with
    | none => createWorker s
    | some w => if stOf s w = .finished then createWorker s else s

/-- One transition; `none` = not enabled. -/
def step {α : Type} (c : Cfg) (s : FSt α) : FAct α → Option (FSt α)
  | .arrive x =>
    let s1 : FSt α := match s.workTask with
              | none => createWorker s
              | some _ => s
    some { s1 with ins := s1.ins ++ [(s1.ins.length, x)], ready := s1.ready ++ [H.insFirst s1.ins.length] }
  | .tick =>
    match s.ready with
    | [] => none
    | h :: rest => runH c { s with ready := rest } h
  | .jobDone j =>
    match jst s j with
    | some .created => some { s with jobs := setJ j .createdResolved s.jobs }
    | some .running => some { s with jobs := setJ j .resolved s.jobs, ready := s.ready ++ [.jobWake j] }
    | _ => none
  | .downDone =>
    match firstBusy s with
    | some (w, j) => some { setSt s w (.emitting j false) with ready := s.ready ++ [H.gatherCb w] }
    | none => none
  | .start => some (startNode c s)
  | .stop =>
    -- `stop_work, _ = self.work_task` (TypeError when it is None); `stop_work.set()`; `self.work_task = None`
    match s.workTask with
    | none => none
    | some w => some { setStop s w with workTask := none }

def run {α : Type} (c : Cfg) : FSt α → List (FAct α) → Option (FSt α)
  | s, [] => some s
  | s, a :: rest => (step c s a).bind (fun s' => run c s' rest)

def init (α : Type) : FSt α := {}

/-! ## Projections of the ready queue and the abstraction to the settled model -/

/-- insert jobs whose first step has not run yet, in ready-queue order -/
def fresh : List H → List Nat
  | [] => []
  | .insFirst j :: r => j :: fresh r
  | _ :: r => fresh r

def wakes : List H → List Nat
  | [] => []
  | .insWake j :: r => j :: wakes r
  | _ :: r => wakes r

def polls : List H → List Nat
  | [] => []
  | .insPoll j :: r => j :: polls r
  | _ :: r => polls r

def waitCbs : List H → List Nat
  | [] => []
  | .waitCb w :: r => w :: waitCbs r
  | _ :: r => waitCbs r

/-- The settled model's `waiting` list (ids): the lock holder, the lock's waiter queue, the insert jobs that have
not run their first step — in that order. -/
def waitingIds {α : Type} (s : FSt α) : List Nat :=
  s.holder.toList ++ s.lockq.map Prod.fst ++ fresh s.ready

/-- what the settled model knows of the worker -/
inductive WP where
  | idle | awaiting (j : Nat) | emitting (j : Nat)
deriving Repr, DecidableEq

def projA : W → Option WP
  | .awaiting j => some (.awaiting j)
  | .emitting j _ => some (.emitting j)
  | _ => none

/-- the settled model's view of all workers together: what the first worker that holds a task is doing with it
(by `c02_map_async_single_consumer` there is at most one) -/
def aproj {α : Type} (s : FSt α) : WP :=
  ((List.range s.workers.length).findSome? (fun w => projA (stOf s w))).getD .idle

/-- the job that has been taken out of the queue and not emitted yet -/
def apre {α : Type} (s : FSt α) : List Nat :=
  match aproj s with
  | .awaiting j => [j]
  | _ => []

end StreamzVerif.MapAsyncFine
