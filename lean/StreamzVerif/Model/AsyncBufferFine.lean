import StreamzVerif.Model.AsyncBuffer
/-!
# Fine-grained transition system of `buffer(n)` (streamz/core.py l. 1564-1590)

Model/AsyncBuffer.lean describes the node at *settled* granularity: one step = an external action plus everything
the event loop does until nothing is runnable.  Here one step = ONE HANDLE of the event loop (or one external
action), so that arrivals can fall anywhere between two handles — in particular between the moment tornado's
`Queue.put` hands an item to the waiting getter and the moment the `cb` coroutine is actually resumed.

Context, as in the settled model with `downAsync = true`:  producer(s) -> buffer(n) -> consumer whose `update`
returns an awaitable; the consumer holds its own reference to the element from the hand-over until it completes.

What is explicit (tornado 6 `queues.Queue`, `gen.coroutine`, `IOLoop.add_future`; found by stepping the real node
one ready handle at a time, harness/corr_asyncbufferfine.py):

* `items` = `Queue._queue`;  `putters` = `Queue._putters` (item + pending put future), FIFO;
  `Queue._getters` holds at most the one pending `get` future of `cb` — that is the state `waitingGet`.
* `put` (= `buffer.update`, l. 1581-1583): `put_nowait`:  `if self._getters:` pop the getter and resolve its future
  with the item — the coroutine is NOT resumed, its resumption is a handle queued on the loop (`resumed x`);
  `elif self.full(): raise QueueFull` -> park `(item, future)`;  `else` enqueue.  A put that did not park returns an
  already resolved future, so the producer's `emit` awaitable is complete at once.
* `cb` (l. 1585-1590) `x, md = yield self.queue.get(); yield self._emit(x, md); self._release_refs(md)`:
  `resumeCb` from `resumed x` hands `x` downstream and suspends on the consumer's awaitable (`emitting x`);
  `downDone` resolves that awaitable — again the coroutine is only made runnable (`running (some x)`; two loop
  handles later it runs: tornado's `multi_future` callback, then the runner — the first does nothing observable);
  `resumeCb` from `running r` releases `r` and calls `queue.get()`: `get_nowait` promotes the first putter into the
  queue (resolving its put future) and returns the head, or returns the head, or — queue empty — registers a getter.
  A `get` future that is already resolved does not suspend the coroutine (`Runner.handle_yield` returns `True`),
  so taking the next element and handing it downstream happen in the SAME handle.
* resolving a parked put future only queues its done-callback; the producer's `emit` awaitable completes when that
  handle runs: action `ack` (`acks` = resolved put futures whose callback has not run, in FIFO order).
-/
namespace StreamzVerif.AsyncBufferFine
open StreamzVerif.AsyncBuffer

/-- State of the coroutine `buffer.cb` between two loop handles. -/
inductive Cb (α : Type) where
  /-- suspended in `yield self.queue.get()`, its get future is registered in `Queue._getters` -/
  | waitingGet
  /-- the get future has been resolved with `it` by a `put` (direct hand-off); resumption queued, not yet run -/
  | resumed (it : Item α)
  /-- suspended in `yield self._emit(x, metadata=metadata)`: the consumer is busy with `it` -/
  | emitting (it : Item α)
  /-- runnable: when it runs it releases `rel` (the element whose emission the consumer has completed; `none` at
  start-up, `loop.add_callback(self.cb)`) and issues the next `get` -/
  | running (rel : Option (Item α))
deriving Repr, DecidableEq

/-- the element the coroutine holds, if any -/
def Cb.items {α : Type} : Cb α → List (Item α)
  | .waitingGet => []
  | .resumed it => [it]
  | .emitting it => [it]
  | .running none => []
  | .running (some it) => [it]

/-- ... if it has already been handed downstream -/
def Cb.outItems {α : Type} : Cb α → List (Item α)
  | .emitting it => [it]
  | .running (some it) => [it]
  | _ => []

/-- ... if it is in the hand-off window (taken out of the queue's reach, not yet handed downstream) -/
def Cb.handOff {α : Type} : Cb α → List (Item α)
  | .resumed it => [it]
  | _ => []

structure FSt (α : Type) where
  items : List (Item α) := []
  putters : List (Item α) := []
  cb : Cb α := .running none
  /-- ids of put futures resolved by a promotion whose done-callback (the producer's awaitable) has not run yet -/
  acks : List Nat := []
  ins : List (Nat × α) := []
  outs : List (Nat × α) := []
  fin : List (Item α) := []
  /-- ids whose put future has been resolved (at the `put` itself or by a promotion), in that order -/
  accepted : List Nat := []
  /-- ids whose producer has been notified (`emit` awaitable complete) -/
  acked : List Nat := []
  log : List (Ev α α) := []
deriving Repr

inductive FAct (α : Type) where
  | arrive (x : α)
  | resumeCb
  | downDone
  | ack
deriving Repr, DecidableEq

def full {γ : Type} (n : Nat) (q : List γ) : Bool := (⟨n, true⟩ : BCfg).full q

/-- `cb` hands `it` downstream (`yield self._emit(x, metadata=metadata)`). -/
def startEmit {α : Type} (s : FSt α) (it : Item α) : FSt α :=
  { s with cb := .emitting (it.handOver true), outs := s.outs ++ [it.key], log := s.log ++ emitEvs true it it.val }

/-- `queue.get()` issued by the running coroutine. -/
def getNext {α : Type} (s : FSt α) : FSt α :=
  match s.putters with
  | p :: ps =>
    let s1 := { s with putters := ps, accepted := s.accepted ++ [p.id], acks := s.acks ++ [p.id],
                       log := s.log ++ [Ev.accept p.id] }
    match s.items with
    | [] => startEmit { s1 with items := [] } p
    | h :: t => startEmit { s1 with items := t ++ [p] } h
  | [] =>
    match s.items with
    | h :: t => startEmit { s with items := t } h
    | [] => { s with cb := .waitingGet }

/-- One transition; `none` = not enabled. -/
def step {α : Type} (n : Nat) (s : FSt α) : FAct α → Option (FSt α)
  | .arrive x =>
    let i := s.ins.length
    let it := Item.enter i x
    let s0 := { s with ins := s.ins ++ [(i, x)], log := s.log ++ enterEvs1 i }
    match s.cb with
    | .waitingGet =>
      some { s0 with cb := .resumed it, accepted := s0.accepted ++ [i], acked := s0.acked ++ [i],
                     log := s0.log ++ [Ev.accept i] ++ enterEvs2 i x }
    | _ =>
      if full n s.items then
        some { s0 with putters := s0.putters ++ [it], log := s0.log ++ enterEvs2 i x }
      else
        some { s0 with items := s0.items ++ [it], accepted := s0.accepted ++ [i], acked := s0.acked ++ [i],
                       log := s0.log ++ [Ev.accept i] ++ enterEvs2 i x }
  | .resumeCb =>
    match s.cb with
    | .resumed it => some (startEmit s it)
    | .running none => some (getNext s)
    | .running (some it) =>
      some (getNext { s with fin := s.fin ++ [it.release], log := s.log ++ relEvs it })
    | _ => none
  | .downDone =>
    match s.cb with
    | .emitting it => some { s with cb := .running (some it.release), log := s.log ++ relEvs it }
    | _ => none
  | .ack =>
    match s.acks with
    | i :: rest => some { s with acks := rest, acked := s.acked ++ [i] }
    | [] => none

def run {α : Type} (n : Nat) : FSt α → List (FAct α) → Option (FSt α)
  | s, [] => some s
  | s, a :: rest => (step n s a).bind (fun s' => run n s' rest)

def init (α : Type) : FSt α := {}

/-! ## Quiescence and the abstraction to the settled model -/

/-- One internal loop handle, if any is runnable: the coroutine's resumption, else a put-future callback. -/
def internal {α : Type} (n : Nat) (s : FSt α) : Option (FSt α) :=
  match step n s .resumeCb with
  | some s' => some s'
  | none => step n s .ack

/-- Work left for the loop without further arrivals: every element still in the queue or parked needs three
more transitions of the node (take, consumer completion, release), the coroutine's own stage counts 0-3, every
pending producer notification one. -/
def measure {α : Type} (s : FSt α) : Nat :=
  3 * (s.items.length + s.putters.length) + s.acks.length +
    (match s.cb with
     | .waitingGet => 0
     | .running _ => 1
     | .emitting _ => 2
     | .resumed _ => 3)

def quiesce {α : Type} (n : Nat) : Nat → FSt α → FSt α
  | 0, s => s
  | k + 1, s =>
    match internal n s with
    | none => s
    | some s' => quiesce n k s'

/-- External action followed by everything the loop can do on its own (a disabled action leaves the state alone). -/
def qstep {α : Type} (n : Nat) (s : FSt α) (a : FAct α) : FSt α :=
  match step n s a with
  | some s' => quiesce n (measure s') s'
  | none => s

/-- The settled model's view of a fine state. -/
def abs {α : Type} (s : FSt α) : BSt α :=
  { queue := s.items, putters := s.putters,
    cb := (match s.cb with
           | .emitting it => AsyncBuffer.Cb.emitting it
           | _ => AsyncBuffer.Cb.idle),
    ins := s.ins, outs := s.outs, fin := s.fin, accepted := s.accepted, log := s.log }

/-- Nothing is runnable on the loop: the coroutine waits for input or for the consumer, every producer has been notified. -/
def Settled {α : Type} (s : FSt α) : Prop :=
  (s.cb = .waitingGet ∨ ∃ it, s.cb = .emitting it) ∧ s.acks = []

/-- the fine action for an external (settled-model) action -/
def ofB {α : Type} : BAct α → FAct α
  | .arrive x => .arrive x
  | .downDone => .downDone

/-- the node once the loop has started `cb` (`loop.add_callback(self.cb)` has run: the first `get` is pending) -/
def qinit (n : Nat) (α : Type) : FSt α := quiesce n 1 (init α)

/-- external actions, each followed by everything the loop can do on its own -/
def qrun {α : Type} (n : Nat) (s : FSt α) (acts : List (BAct α)) : FSt α := (acts.map ofB).foldl (qstep n) s

end StreamzVerif.AsyncBufferFine
