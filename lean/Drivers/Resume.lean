import StreamzVerif.Driver.Util
import StreamzVerif.Model.Rolling
import StreamzVerif.Model.Resume
/-! Line-protocol driver for C12: executes the definitions of `Model/Resume.lean` (`run`, `runWS`,
`resumeAt`) on the step functions of `Model/Rolling.lean`.
  {"op":"reset","model":"rolling","win":"count"|"time","W":2,"agg":"sum",["q":[1,4]]}  -> {"ok":true}
  {"op":"reset","model":"exp","agg":"sum|count|mean|var",["ddof":1]}                   -> {"ok":true}
  {"op":"reset","model":"ewm","q":[1,2]}                                               -> {"ok":true}
      {"op":"batch","rows":[[t,v|null],...]} | {"op":"batch","vals":[v|null,...]}
          appends the batch to the uninterrupted pipeline; -> {"out": o}  the result component of the LAST tuple of
          `runWS step start batches` (rolling: [r,...]; exp/ewm: r;  r = null | [num,den])
      {"op":"resume","cut":k}
          -> {"out":[o,...],"suffix_ok":b}  `(resumeAt step start batches k).2`; `suffix_ok`: it equals
          `(run step start batches).2.drop k`, and so does the run started from the state component of the tuple
          `(runWS step start batches)[k-1]` (the emitted state), executed, not assumed
-/
open Lean StreamzVerif StreamzVerif.Driver StreamzVerif.Rolling StreamzVerif.Resume

def ratJ (r : Rat) : Json := Json.arr #[toJson r.num, toJson r.den]
def oratJ : Option Rat → Json
  | none => Json.null
  | some r => ratJ r

def parseOInt (j : Json) : Option (Option Int) :=
  match j with
  | Json.null => some none
  | _ => (fromJson? j : Except String Int).toOption.map some
def parseRow (j : Json) : Option Row :=
  match j with
  | Json.arr #[t, v] =>
    match (fromJson? t : Except String Int).toOption, parseOInt v with
    | some t, some v => some { t := t, v := v }
    | _, _ => none
  | _ => none
def parseRows (j : Json) (k : String) : Option (List Row) := (getArr j k).bind (fun a => a.toList.mapM parseRow)
def parseVals (j : Json) (k : String) : Option (List (Option Int)) := (getArr j k).bind (fun a => a.toList.mapM parseOInt)
def parseRat (j : Json) (k : String) : Option Rat :=
  match getIntList j k with
  | some [n, d] => if d = 0 then none else some ((n : Rat) / (d : Rat))
  | _ => none

inductive Win
  | count (W : Nat)
  | time (W : Int)

inductive ExpK
  | sum | count | mean | var (ddof : Nat)

/-- which accumulation function -/
inductive Cfg
  | roll (w : Win) (agg : String) (q : Rat)
  | exp (k : ExpK)
  | ewm (q : Rat)

/-- a batch as sent by the harness -/
inductive B
  | rows (r : List Row)
  | vals (v : List (Option Int))

/-- the state types of the models, side by side -/
inductive St
  | roll (acc : List Row)
  | expSum (acc : Option (List (List (Option Rat)) × Rat))
  | expCount (acc : Option (List (List (Option Rat)) × Nat))
  | expMean (acc : Option (List (List (Option Rat)) × (Rat × Nat)))
  | expVar (acc : Option (List (List (Option Rat)) × (Rat × Rat × Nat)))
  | ewm (acc : Option (List (List Rat) × EwmSt))
  | bad

def rollStepOf (w : Win) (agg : String) (q : Rat) : List Row → List Row → List Row × List (Option Rat) :=
  match w with
  | .count W => rollStepCount W (winAgg agg W q)
  | .time W => rollStepTime (·.t) W (winAgg agg 1 q)

def toRatCells (l : List (Option Int)) : List (Option Rat) := l.map (·.map (fun (x : Int) => (x : Rat)))

def initSt : Cfg → St
  | .roll _ _ _ => .roll []           -- start=()
  | .exp .sum => .expSum none         -- start=None
  | .exp .count => .expCount none
  | .exp .mean => .expMean none
  | .exp (.var _) => .expVar none
  | .ewm _ => .ewm none

/-- the accumulation function of the configured model as ONE step function over the sum of the state types;
results are rendered to JSON so that `Resume.run` can be used at a single result type -/
def stepM (cfg : Cfg) (st : St) (b : B) : St × Json :=
  match cfg, st, b with
  | .roll w a q, .roll acc, .rows rows =>
    let r := rollStepOf w a q acc rows
    (.roll r.1, Json.arr (r.2.map oratJ).toArray)
  | .exp .sum, .expSum acc, .vals v =>
    let r := expStep aggSum acc (toRatCells v)
    (.expSum r.1, ratJ r.2)
  | .exp .count, .expCount acc, .vals v =>
    let r := expStep aggCount acc (toRatCells v)
    (.expCount r.1, ratJ (r.2 : Nat))
  | .exp .mean, .expMean acc, .vals v =>
    let r := expStep aggMean acc (toRatCells v)
    (.expMean r.1, oratJ r.2)
  | .exp (.var ddof), .expVar acc, .vals v =>
    let r := expStep (aggVar ddof) acc (toRatCells v)
    (.expVar r.1, oratJ r.2)
  | .ewm q, .ewm acc, .vals v =>
    if v.any (·.isNone) then (.bad, badOp "ewm model has no NaN")
    else
      let r := ewmStep q acc ((v.filterMap id).map (fun (x : Int) => (x : Rat)))
      (.ewm r.1, oratJ r.2)
  | _, _, _ => (.bad, badOp "batch does not fit the model")

inductive DSt
  | none
  | live (cfg : Cfg) (bs : List B)

def step (st : DSt) (j : Json) : DSt × Json :=
  let ok := Json.mkObj [("ok", true)]
  match getStr j "op" with
  | some "reset" =>
    match getStr j "model" with
    | some "rolling" =>
      let q := (parseRat j "q").getD (1 / 2)
      match getStr j "win", getInt j "W", getStr j "agg" with
      | some "count", some W, some a => if W < 0 then (st, badOp "W") else (DSt.live (.roll (.count W.toNat) a q) [], ok)
      | some "time", some W, some a => (DSt.live (.roll (.time W) a q) [], ok)
      | _, _, _ => (st, badOp "rolling header")
    | some "exp" =>
      match getStr j "agg" with
      | some "sum" => (DSt.live (.exp .sum) [], ok)
      | some "count" => (DSt.live (.exp .count) [], ok)
      | some "mean" => (DSt.live (.exp .mean) [], ok)
      | some "var" => (DSt.live (.exp (.var ((getNat j "ddof").getD 1))) [], ok)
      | _ => (st, badOp "agg")
    | some "ewm" =>
      match parseRat j "q" with
      | some q => (DSt.live (.ewm q) [], ok)
      | Option.none => (st, badOp "q")
    | _ => (st, badOp "model")
  | some "batch" =>
    match st with
    | DSt.live cfg bs =>
      let b : Option B := match parseRows j "rows" with
        | some r => some (B.rows r)
        | Option.none => (parseVals j "vals").map B.vals
      match b with
      | some b =>
        let bs' := bs ++ [b]
        match (runWS (stepM cfg) (initSt cfg) bs').getLast? with
        | some (_, out) => (DSt.live cfg bs', Json.mkObj [("out", out)])
        | Option.none => (st, badOp "no emission")
      | Option.none => (st, badOp "rows/vals")
    | DSt.none => (st, badOp "batch before reset")
  | some "resume" =>
    match st, getNat j "cut" with
    | DSt.live cfg bs, some k =>
      let f := stepM cfg
      let s0 := initSt cfg
      let r := resumeAt f s0 bs k
      let full := run f s0 bs
      -- the same through the state component of the emitted tuple number k-1
      let viaEmitted : Option (List Json) :=
        if k = 0 then some (run f s0 bs).2
        else ((runWS f s0 bs)[k - 1]?).map (fun e => (run f e.1 (bs.drop k)).2)
      let okSuffix := r.2 == full.2.drop k && viaEmitted == some r.2
      (st, Json.mkObj [("out", Json.arr r.2.toArray), ("suffix_ok", okSuffix)])
    | DSt.live _ _, Option.none => (st, badOp "cut")
    | DSt.none, _ => (st, badOp "resume before reset")
  | _ => (st, badOp "op")

def main : IO Unit := runLoop step DSt.none
