import StreamzVerif.Driver.Util
import StreamzVerif.Model.AsyncBuffer
/-! Line-protocol driver for the `buffer(n)` / `map_async(func, parallelism)` event-loop models
(Model/AsyncBuffer.lean).  Values are integers; `f` is one of the catalogue functions `id`, `inc`, `dbl`.

  {"op":"reset","model":"buffer","n":N,"async":b}              -> {"ok":true}
  {"op":"reset","model":"map_async","p":P,"async":b,"f":"inc"}  -> {"ok":true}
        b = the downstream consumer returns an awaitable (completed by "done"); false = synchronous consumer
  {"op":"arrive","x":v}        a producer emits v
  {"op":"done"}                the consumer's awaitable of the current emission completes
  {"op":"jobdone","id":i}      map_async: the user coroutine of element i (arrival index) returns
  {"op":"jobfail","id":i}      map_async: ... raises
        optional "picks":[k,..] on a map_async op: run the ORIGINAL (non-FIFO) slot wait with these admission choices
  -> {"evs":[..], "accepted":[ids], "items":[[id,cnt,fires],..], "busy":b, "queue":[ids], "blocked":[ids], "outs":[[id,v],..]}
        evs = events of this step: ["emit",id,v] ["retain",id] ["release",id] ["fire",id] ["accept",id]
              ["jobstart",id,v] ["joblost",id];  items = every element that ever arrived (arrival order) with its
              reference count and number of callback firings;  busy = an emission is awaiting the consumer;
              queue = buffer queue / started jobs not yet taken by the worker (map_async: plus the awaited one first);
              blocked = blocked putters / insert jobs waiting for a slot
An action that is not enabled (done while nothing is being handled, jobdone for a job that is not running)
answers {"err":"not-enabled"} and leaves the state unchanged; unknown input -> bad-op.
-/
open Lean StreamzVerif StreamzVerif.Driver StreamzVerif.AsyncBuffer

inductive DSt
  | none
  | buf (c : BCfg) (s : BSt Int)
  | ma (c : MCfg) (f : Int → Int) (s : MSt Int Int)

def evJson : Ev Int Int → Json
  | .emit i v => Json.arr #["emit", toJson i, toJson v]
  | .retain i => Json.arr #["retain", toJson i]
  | .release i => Json.arr #["release", toJson i]
  | .fire i => Json.arr #["fire", toJson i]
  | .accept i => Json.arr #["accept", toJson i]
  | .jobstart i v => Json.arr #["jobstart", toJson i, toJson v]
  | .joblost i => Json.arr #["joblost", toJson i]

def itemJson (it : Item Int) : Json := Json.arr #[toJson it.id, toJson it.cnt, toJson it.fires]
def idsJson (l : List (Item Int)) : Json := toJson (l.map (·.id))
def outsJson (l : List (Nat × Int)) : Json := Json.arr (l.map (fun p => Json.arr #[toJson p.1, toJson p.2])).toArray
def err (why : String) : Json := Json.mkObj [("err", Json.str why)]
def ok : Json := Json.mkObj [("ok", true)]

def bufAnswer (old : BSt Int) (s : BSt Int) : Json :=
  Json.mkObj [
    ("evs", Json.arr ((s.log.drop old.log.length).map evJson).toArray),
    ("accepted", toJson s.accepted),
    ("items", Json.arr ((s.fin ++ s.cb.items ++ s.queue ++ s.putters).map itemJson).toArray),
    ("busy", toJson (s.cb.items.length != 0)),
    ("queue", idsJson s.queue),
    ("blocked", idsJson s.putters),
    ("outs", outsJson s.outs)]

def maAnswer (old : MSt Int Int) (s : MSt Int Int) : Json :=
  Json.mkObj [
    ("evs", Json.arr ((s.log.drop old.log.length).map evJson).toArray),
    ("accepted", toJson s.accepted),
    ("items", Json.arr ((s.fin.map Prod.fst ++ s.worker.items ++ s.queue.map Job.it ++ s.waiting).map itemJson).toArray),
    ("busy", toJson (match s.worker with | .emitting _ => true | _ => false)),
    ("queue", idsJson ((match s.worker with | .awaiting it => [it] | _ => []) ++ s.queue.map Job.it)),
    ("running", toJson (((match s.worker with | .awaiting it => [it.id] | _ => []) ++
                  (s.queue.filter (fun j => j.st == .running)).map (·.it.id)))),
    ("blocked", idsJson s.waiting),
    ("outs", outsJson s.outs)]

def catalogue (name : String) : Option (Int → Int) :=
  match name with
  | "id" => some (fun x => x)
  | "inc" => some (fun x => x + 1)
  | "dbl" => some (fun x => 2 * x)
  | _ => Option.none

/-- is the job of element `i` running (started, neither returned nor raised)? -/
def jobRunning (s : MSt Int Int) (i : Nat) : Bool :=
  (match s.worker with | .awaiting it => it.id == i | _ => false) ||
    s.queue.any (fun j => j.it.id == i && j.st == .running)

def maStep (c : MCfg) (f : Int → Int) (s : MSt Int Int) (a : MAct Int) (j : Json) : MSt Int Int :=
  match getNatList j "picks" with
  | some picks => mstepU f c s (a, picks)
  | Option.none => mstep f c s a

def stepD (st : DSt) (j : Json) : DSt × Json :=
  match getStr j "op" with
  | some "reset" =>
    match getStr j "model", getBool j "async" with
    | some "buffer", some b =>
      match getNat j "n" with
      | some n => (DSt.buf ⟨n, b⟩ (binit Int), ok)
      | _ => (st, badOp "reset")
    | some "map_async", some b =>
      match getNat j "p", (getStr j "f").bind catalogue with
      | some p, some f => (DSt.ma ⟨p, b⟩ f (minit Int Int), ok)
      | _, _ => (st, badOp "reset")
    | _, _ => (st, badOp "reset")
  | some "arrive" =>
    match st, getInt j "x" with
    | DSt.buf c s, some x => let s' := bstep c s (.arrive x); (DSt.buf c s', bufAnswer s s')
    | DSt.ma c f s, some x => let s' := maStep c f s (.arrive x) j; (DSt.ma c f s', maAnswer s s')
    | _, _ => (st, badOp "arrive")
  | some "done" =>
    match st with
    | DSt.buf c s =>
      if c.downAsync && s.cb.items.length != 0 then let s' := bstep c s .downDone; (DSt.buf c s', bufAnswer s s')
      else (st, err "not-enabled")
    | DSt.ma c f s =>
      match s.worker with
      | .emitting _ => let s' := maStep c f s .downDone j; (DSt.ma c f s', maAnswer s s')
      | _ => (st, err "not-enabled")
    | DSt.none => (st, badOp "done")
  | some "jobdone" =>
    match st, getNat j "id" with
    | DSt.ma c f s, some i =>
      if jobRunning s i then let s' := maStep c f s (.jobDone i) j; (DSt.ma c f s', maAnswer s s')
      else (st, err "not-enabled")
    | _, _ => (st, badOp "jobdone")
  | some "jobfail" =>
    match st, getNat j "id" with
    | DSt.ma c f s, some i =>
      if jobRunning s i then let s' := maStep c f s (.jobFail i) j; (DSt.ma c f s', maAnswer s s')
      else (st, err "not-enabled")
    | _, _ => (st, badOp "jobfail")
  | _ => (st, badOp "op")

def main : IO Unit := runLoop stepD DSt.none
