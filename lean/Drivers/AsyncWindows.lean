import StreamzVerif.Driver.Util
import StreamzVerif.Model.AsyncWindows
/-! Line-protocol driver for the time-window models (times in ticks of 1/4 s, elements are integers,
metadata entries are counter ids).

  {"op":"reset","model":"tw","interval":I,"mode":"plain"|"first"|"last","key":K,"sync":b}   -> {"ok":true}
  {"op":"reset","model":"pt","n":n,"timeout":T,"key":K,"sync":b}                             -> {"ok":true}
        K = null (constant key) | ["id"] | ["modk",k];  b = the downstream is synchronous
  {"op":"settle"}                 tw: the loop runs `cb` for the first time (action `start`); pt: nothing
  {"op":"arrive","x":v,"md":[r..]}
  {"op":"advance","dt":d,"order":[k..]}   due timers fire in due order (`advanceTo` / `padvanceTo`), clock stops at now+d;
                                  "order" (pt, optional) = keys in the order the real loop served the timers: used ONLY to
                                  choose among timers due at the same instant (the loop's heap order is not FIFO)
  {"op":"downdone","j":j}         the downstream awaitable of emission j completes
Every answer: {"now":t,"emits":[[t,[v..],[r..]]..],"fired":[r..],"counts":[c1..cR],"pending":[b..]}
  emits / fired = what the action added; counts = counters 1..R (R = largest id seen); pending = one flag per
  arrival so far (is the awaitable its `emit` returned still pending).  A disabled action answers {"err":..}.
-/
open Lean StreamzVerif StreamzVerif.Driver StreamzVerif.AsyncWindows

inductive DSt
  | none
  | tw (cfg : Cfg Int Int) (s : TW Int) (maxRef : Nat)
  | pt (cfg : PCfg Int Int) (s : PT Int Int) (maxRef : Nat)

def err (why : String) : Json := Json.mkObj [("err", Json.str why)]
def ok : Json := Json.mkObj [("ok", true)]

def parseKey (j : Json) : Option (Int → Int) :=
  match j.getObjVal? "key" with
  | .ok Json.null => some (fun _ => 0)
  | .error _ => some (fun _ => 0)
  | .ok (.arr a) =>
    match a.toList with
    | [Json.str "id"] => some id
    | [Json.str "modk", k] =>
      match k.getInt? with
      | .ok m => some (fun x => x % m)
      | .error _ => Option.none
    | _ => Option.none
  | _ => Option.none

def countsJson (rc : RC) (maxRef : Nat) : Json :=
  toJson ((List.range maxRef).map (fun i => rc.cnt (i + 1)))

def emitJson (t : Nat) (b : List (Elem Int)) : Json :=
  Json.arr #[toJson t, toJson (b.map (·.val)), toJson (mds b)]

def twAnswer (old s : TW Int) (maxRef : Nat) : Json :=
  Json.mkObj [
    ("now", toJson s.now),
    ("emits", Json.arr ((s.outs.drop old.outs.length).map (fun o => emitJson o.at_ o.batch)).toArray),
    ("fired", toJson (s.rc.fired.drop old.rc.fired.length)),
    ("counts", countsJson s.rc maxRef),
    ("pending", toJson (s.waits.map s.emitPending))]

def ptAnswer (old s : PT Int Int) (maxRef : Nat) : Json :=
  Json.mkObj [
    ("now", toJson s.now),
    ("emits", Json.arr ((s.outs.drop old.outs.length).map (fun o => emitJson o.at_ o.batch)).toArray),
    ("fired", toJson (s.rc.fired.drop old.rc.fired.length)),
    ("counts", countsJson s.rc maxRef),
    ("pending", toJson (s.waits.map s.emitPending))]

def FUEL : Nat := 100000

def stepD (st : DSt) (j : Json) : DSt × Json :=
  match getStr j "op" with
  | some "reset" =>
    match getStr j "model", parseKey j, getBool j "sync" with
    | some "tw", some key, some sync =>
      match getNat j "interval", getStr j "mode" with
      | some I, some m =>
        let mode? : Option Mode := match m with
          | "plain" => some .plain | "first" => some .first | "last" => some .last | _ => Option.none
        match mode? with
        | some mode => (DSt.tw { interval := I, mode := mode, key := key, syncDown := sync } (TW.init Int 0) 0, ok)
        | Option.none => (st, badOp "mode")
      | _, _ => (st, badOp "reset tw")
    | some "pt", some key, some sync =>
      match getNat j "n", getNat j "timeout" with
      | some n, some T => (DSt.pt { n := n, timeout := T, key := key, syncDown := sync } (PT.init Int Int 0) 0, ok)
      | _, _ => (st, badOp "reset pt")
    | _, _, _ => (st, badOp "reset")
  | some "settle" =>
    match st with
    | DSt.tw cfg s mr =>
      match s.cb with
      | .idle =>
        match step cfg s .start with
        | some s' => (DSt.tw cfg s' mr, twAnswer s s' mr)
        | Option.none => (st, err "start-disabled")
      | _ => (st, twAnswer s s mr)
    | DSt.pt _ s mr => (st, ptAnswer s s mr)
    | DSt.none => (st, badOp "settle")
  | some "arrive" =>
    match getInt j "x", getNatList j "md" with
    | some x, some md =>
      match st with
      | DSt.tw cfg s mr =>
        let mr := md.foldl max mr
        match step cfg s (.arrive x md) with
        | some s' => (DSt.tw cfg s' mr, twAnswer s s' mr)
        | Option.none => (st, err "arrive-disabled")
      | DSt.pt cfg s mr =>
        let mr := md.foldl max mr
        match pstep cfg s (.arrive x md) with
        | some s' => (DSt.pt cfg s' mr, ptAnswer s s' mr)
        | Option.none => (st, err "arrive-disabled")
      | DSt.none => (st, badOp "arrive")
    | _, _ => (st, badOp "arrive")
  | some "advance" =>
    match getNat j "dt" with
    | some dt =>
      match st with
      | DSt.tw cfg s mr =>
        match advanceTo cfg FUEL s (s.now + dt) with
        | some s' => (DSt.tw cfg s' mr, twAnswer s s' mr)
        | Option.none => (st, err "advance-disabled")
      | DSt.pt cfg s mr =>
        match padvanceTo cfg FUEL s (s.now + dt) ((getIntList j "order").getD []) with
        | some s' => (DSt.pt cfg s' mr, ptAnswer s s' mr)
        | Option.none => (st, err "advance-disabled")
      | DSt.none => (st, badOp "advance")
    | Option.none => (st, badOp "advance")
  | some "downdone" =>
    match getNat j "j" with
    | some k =>
      match st with
      | DSt.tw cfg s mr =>
        if k + 1 = s.outs.length then
          match step cfg s .downDone with
          | some s' => (DSt.tw cfg s' mr, twAnswer s s' mr)
          | Option.none => (st, err "downdone-disabled")
        else (st, err "downdone-not-the-emission-in-flight")
      | DSt.pt cfg s mr =>
        match pstep cfg s (.downDone k) with
        | some s' => (DSt.pt cfg s' mr, ptAnswer s s' mr)
        | Option.none => (st, err "downdone-disabled")
      | DSt.none => (st, badOp "downdone")
    | Option.none => (st, badOp "downdone")
  | _ => (st, badOp "op")

def main : IO Unit := runLoop stepD DSt.none
