import StreamzVerif.Driver.Util
import StreamzVerif.Model.AsyncZip
/-! Line-protocol driver for the `zip(maxsize)` event-loop model (values are integers).

  {"op":"reset","k":K,"maxsize":M,"sinks":[true,false,..]}        -> {"ok":true}
        K upstream sources, downstream sinks in attachment order (true = asynchronous consumer)
  {"op":"arrive","u":U,"x":X,"md":[[tag,ref|null],..],"nrefs":N}  the producer of upstream U emits X
  {"op":"sinkdone","tok":T,"nrefs":N}                             consumer invocation T finishes
  {"op":"noop","nrefs":N}                                         settle / advance: nothing happens
        each -> {"emitted":[{"vals":[..],"tags":[..]}..]   tuples emitted during this operation
                 "emits":["done"|"pending"..]               status of every producer awaitable so far
                 "detail":["done"|"blocked"|"awaiting"..]
                 "fired":[ref..]                            completion callbacks fired during this operation
                 "counts":[c1..cN]                          reference counts of refs 1..N
                 "pending":[tok..]                          unfinished consumer invocations
                 "bufs":[len..]}                            buffer length per upstream
-/
open Lean StreamzVerif StreamzVerif.Driver StreamzVerif.AsyncZip

structure DSt where
  cfg : Cfg
  st : St Int

def parseMd (j : Json) : Option Meta :=
  match getArr j "md" with
  | none => some []
  | some a =>
    a.toList.mapM fun e =>
      match e with
      | .arr #[t, r] =>
        match t.getNat? with
        | .ok tag => some { tag := tag, ref := r.getNat?.toOption }
        | .error _ => none
      | _ => none

def statusStr : Status → String
  | .done => "done"
  | _ => "pending"

def detailStr : Status → String
  | .done => "done"
  | .blocked => "blocked"
  | .awaiting _ => "awaiting"

def answer (cfg : Cfg) (old new : St Int) (nrefs : Nat) : Json :=
  let tuples := new.outs.drop old.outs.length
  let emitted := tuples.map fun t =>
    let es := tupleList cfg.k t
    Json.mkObj [("vals", toJson (es.map (·.val))), ("tags", toJson ((es.flatMap (·.md)).map (·.tag)))]
  Json.mkObj [
    ("emitted", Json.arr emitted.toArray),
    ("emits", toJson (new.emits.map (fun e => statusStr e.2))),
    ("detail", toJson (new.emits.map (fun e => detailStr e.2))),
    ("fired", toJson (new.fired.drop old.fired.length)),
    ("counts", toJson ((List.range nrefs).map (fun r => new.count (r + 1)))),
    ("pending", toJson (new.pending.map (·.1))),
    ("bufs", toJson ((List.range cfg.k).map (fun u => (new.bufs u).length)))]

def stepD (st : Option DSt) (j : Json) : Option DSt × Json :=
  match getStr j "op" with
  | some "reset" =>
    match getNat j "k", getNat j "maxsize", (j.getObjValAs? (List Bool) "sinks").toOption with
    | some k, some m, some sinks => (some { cfg := { k := k, maxsize := m, sinks := sinks }, st := init Int },
                                     Json.mkObj [("ok", true)])
    | _, _, _ => (st, badOp "reset")
  | some "arrive" =>
    match st, getNat j "u", getInt j "x", parseMd j with
    | some d, some u, some x, some md =>
      let s' := step d.cfg d.st (.arrive u x md)
      (some { d with st := s' }, answer d.cfg d.st s' ((getNat j "nrefs").getD 0))
    | _, _, _, _ => (st, badOp "arrive")
  | some "sinkdone" =>
    match st, getNat j "tok" with
    | some d, some tok =>
      let s' := step d.cfg d.st (.sinkDone tok)
      (some { d with st := s' }, answer d.cfg d.st s' ((getNat j "nrefs").getD 0))
    | _, _ => (st, badOp "sinkdone")
  | some "noop" =>
    match st with
    | some d => (st, answer d.cfg d.st d.st ((getNat j "nrefs").getD 0))
    | none => (st, badOp "noop")
  | _ => (st, badOp "op")

def main : IO Unit := runLoop stepD none
