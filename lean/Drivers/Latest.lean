import StreamzVerif.Driver.Util
import StreamzVerif.Model.Latest
/-! Line-protocol driver for the `latest` transition systems (C14).

  {"op":"reset","variant":"fixed"|"orig"}      -> {"ok":true,"state":"-|0|K",...}
  {"op":"step","acts":"ANRD"}                  -> {"ok":true,"state":..,"delivered":[..],"arrived":n,
                                                   "quiescent":b,"free":b}
                                                | {"ok":false,"at":k,"act":"R","state":..}   (not enabled; case is dead)
  {"op":"trace","variant":..,"steps":["A","N","RDR",""]}
        -> {"accepted":true,"states":[..one per step..],"delivered":[..],"arrived":n,"quiescent":b,"free":b}
         | {"accepted":false,"at":i,"act":"R","states":[..prefix..],"delivered":[..]}

  Actions: A arrive, N runNotify, R resume, D consumerDone.
  State rendering: "<slot or ->|<pending>|<co>", co = W waiting, K woken, F finished (orig only), E<tok> emitting.
-/
open Lean StreamzVerif StreamzVerif.Driver StreamzVerif.Latest

def actOf : Char → Option Act
  | 'A' => some .arrive
  | 'N' => some .runNotify
  | 'R' => some .resume
  | 'D' => some .consumerDone
  | _ => none

def showSlot : Option Nat → String
  | none => "-"
  | some i => toString i

def showCo : Co → String
  | .waiting => "W"
  | .woken => "K"
  | .emitting t => "E" ++ toString t

def showCoO : Orig.Co → String
  | .waiting => "W"
  | .woken => "K"
  | .finished => "F"
  | .emitting t => "E" ++ toString t

inductive M
  | fixed (s : St)
  | orig (s : Orig.St)

def M.step : M → Act → Option M
  | .fixed s, a => (Latest.step s a).map .fixed
  | .orig s, a => (Orig.step s a).map .orig

def M.render : M → String
  | .fixed s => showSlot s.slot ++ "|" ++ toString s.pending ++ "|" ++ showCo s.co
  | .orig s => showSlot s.slot ++ "|" ++ toString s.pending ++ "|" ++ showCoO s.co

def M.delivered : M → List Nat
  | .fixed s => s.delivered
  | .orig s => s.delivered

def M.arrived : M → Nat
  | .fixed s => s.arrived
  | .orig s => s.arrived

def M.quiescent : M → Bool
  | .fixed s => decide (Quiescent s)
  | .orig s => decide (Orig.Quiescent s)

def M.free : M → Bool
  | .fixed s => decide (ConsumerFree s)
  | .orig s => decide (Orig.ConsumerFree s)

def M.summary (m : M) : List (String × Json) :=
  [("state", Json.str m.render), ("delivered", toJson m.delivered), ("arrived", toJson m.arrived),
   ("quiescent", Json.bool m.quiescent), ("free", Json.bool m.free)]

def initOf : String → Option M
  | "fixed" => some (.fixed Latest.init)
  | "orig" => some (.orig Orig.init)
  | _ => none

/-- Apply the actions of one harness step; `Except (index, char)` when one is not enabled / unknown. -/
def applyActs (m : M) (cs : List Char) : Except (Nat × Char) M :=
  let rec go (m : M) (k : Nat) : List Char → Except (Nat × Char) M
    | [] => .ok m
    | c :: cs =>
      match actOf c with
      | none => .error (k, c)
      | some a =>
        match m.step a with
        | none => .error (k, c)
        | some m' => go m' (k + 1) cs
  go m 0 cs

inductive DSt
  | none
  | live (m : M)
  | dead

def runTrace (m : M) (steps : List String) : Json :=
  let rec go (m : M) (i : Nat) (acc : Array Json) : List String → Json
    | [] => Json.mkObj ([("accepted", Json.bool true), ("states", Json.arr acc)] ++ m.summary.drop 1)
    | st :: rest =>
      match applyActs m st.toList with
      | .error (_, c) =>
        Json.mkObj [("accepted", Json.bool false), ("at", toJson i), ("act", Json.str (String.singleton c)),
                    ("states", Json.arr acc), ("delivered", toJson m.delivered)]
      | .ok m' => go m' (i + 1) (acc.push (Json.str m'.render)) rest
  go m 0 #[] steps

def step (st : DSt) (j : Json) : DSt × Json :=
  match getStr j "op" with
  | some "reset" =>
    match (getStr j "variant").bind initOf with
    | some m => (.live m, Json.mkObj ([("ok", Json.bool true)] ++ m.summary))
    | none => (st, badOp "variant")
  | some "step" =>
    match st, getStr j "acts" with
    | .live m, some acts =>
      match applyActs m acts.toList with
      | .ok m' => (.live m', Json.mkObj ([("ok", Json.bool true)] ++ m'.summary))
      | .error (k, c) =>
        (.dead, Json.mkObj [("ok", Json.bool false), ("at", toJson k), ("act", Json.str (String.singleton c)),
                            ("state", Json.str m.render)])
    | .dead, some _ => (.dead, Json.mkObj [("ok", Json.bool false), ("dead", Json.bool true)])
    | _, _ => (st, badOp "step")
  | some "trace" =>
    match (getStr j "variant").bind initOf, (j.getObjValAs? (List String) "steps").toOption with
    | some m, some steps => (.none, runTrace m steps)
    | _, _ => (st, badOp "trace")
  | _ => (st, badOp "op")

def main : IO Unit := runLoop step DSt.none
