import StreamzVerif.Driver.Util
import StreamzVerif.Model.RateLimit
/-! Line-protocol driver for the rate_limit / delay models (times in ticks, elements are naturals).

  {"op":"reset","model":"rate_limit","interval":I,"clock":c0}  -> {"ok":true}
  {"op":"reset","model":"delay","interval":I,"clock":c0}       -> {"ok":true}      (c0 = instant `cb` started)

The observed event sequence of the real node is replayed through the event-loop model; every event
must be an enabled action (otherwise the answer carries "err"), and the functional model is fed the
same arrivals independently:
  {"op":"arrive","t":t,"x":x,"c":cost}   clock moves to t (must be allowed), then `arrive x`
        rate_limit -> {"due":d,"sync":b}   d from the functional `reserve`, b = delivered within the same step
        delay      -> {"ok":true}          ("c" = how long the downstream awaitable of x takes; functional model only)
  {"op":"deliver","t":t,"x":x}           rate_limit: the timer holding x fires at t;  delay: `take` at t yields x
        -> {"ok":true}
  {"op":"done","t":t}                    delay only: the downstream awaitable completes at t   -> {"ok":true}
  {"op":"end"}  -> {"outs":[[t,x]..],"pending":[..],"plan":[[t,x]..]}
        outs = deliveries of the event-loop model, pending = sleeping timers [[due,x]] / queue content [x],
        plan = functional model (`plan` / `delayPlan`) on the arrivals
For delay the driver inserts the unobservable `wake` action (sleep timer fires) as soon as it is due.
-/
open Lean StreamzVerif StreamzVerif.Driver StreamzVerif.RateLimit

inductive DSt
  | none
  | rl (I : Nat) (sys : Sys Nat) (fst : St) (arrs : List (Nat × Nat))
  | dl (I : Nat) (c0 : Nat) (sys : DSys Nat) (arrs : List (Nat × Nat × Nat))

def pairs (l : List (Nat × Nat)) : Json := Json.arr (l.map (fun p => Json.arr #[toJson p.1, toJson p.2])).toArray
def err (why : String) : Json := Json.mkObj [("err", Json.str why)]
def ok : Json := Json.mkObj [("ok", true)]

/-- rate_limit: move the clock to `t` if it is not already there. -/
def rlTo (I : Nat) (s : Sys Nat) (t : Nat) : Option (Sys Nat) :=
  if s.clock = t then some s else step I s (.advance t)

/-- delay: fire the sleep timer if it is due by `t`, then move the clock to `t`. -/
def dlTo (I : Nat) (s : DSys Nat) (t : Nat) : Option (DSys Nat) :=
  let s1 : Option (DSys Nat) :=
    match s.cb with
    | .sleeping u => if u ≤ t then (drun I s [.advance u, .wake]) else some s
    | _ => some s
  match s1 with
  | some s1 => if s1.clock = t then some s1 else dstep I s1 (.advance t)
  | none => none

def stepD (st : DSt) (j : Json) : DSt × Json :=
  match getStr j "op" with
  | some "reset" =>
    match getStr j "model", getNat j "interval", getNat j "clock" with
    | some "rate_limit", some I, some c0 => (DSt.rl I (init Nat c0) { next := 0 } [], ok)
    | some "delay", some I, some c0 => (DSt.dl I c0 (dinit Nat c0) [], ok)
    | _, _, _ => (st, badOp "reset")
  | some "arrive" =>
    match st, getNat j "t", getNat j "x" with
    | DSt.rl I sys fs arrs, some t, some x =>
      let r := reserve I fs t
      match rlTo I sys t with
      | some s1 =>
        match step I s1 (.arrive x) with
        | some s2 =>
          (DSt.rl I s2 r.st (arrs ++ [(t, x)]),
            Json.mkObj [("due", toJson (r.due t)), ("sync", s2.outs.length != s1.outs.length)])
        | none => (st, err "arrive-disabled")
      | none => (st, err "advance-disabled")
    | DSt.dl I c0 sys arrs, some t, some x =>
      let c := (getNat j "c").getD 0
      match dlTo I sys t with
      | some s1 =>
        match dstep I s1 (.arrive x) with
        | some s2 => (DSt.dl I c0 s2 (arrs ++ [(t, c, x)]), ok)
        | none => (st, err "arrive-disabled")
      | none => (st, err "advance-disabled")
    | _, _, _ => (st, badOp "arrive")
  | some "deliver" =>
    match st, getNat j "t", getNat j "x" with
    | DSt.rl I sys fs arrs, some t, some x =>
      match rlTo I sys t with
      | some s1 =>
        match s1.timers.findIdx? (fun p => p.2 == x) with
        | some i =>
          match step I s1 (.fire i) with
          | some s2 => (DSt.rl I s2 fs arrs, ok)
          | none => (st, err "fire-disabled")
        | none => (st, err "no-such-timer")
      | none => (st, err "advance-disabled")
    | DSt.dl I c0 sys arrs, some t, some x =>
      match dlTo I sys t with
      | some s1 =>
        match dstep I s1 .take with
        | some s2 =>
          if s2.outs.getLast?.map Prod.snd == some x then (DSt.dl I c0 s2 arrs, ok)
          else (st, err "take-yields-other-element")
        | none => (st, err "take-disabled")
      | none => (st, err "advance-disabled")
    | _, _, _ => (st, badOp "deliver")
  | some "done" =>
    match st, getNat j "t" with
    | DSt.dl I c0 sys arrs, some t =>
      -- the coroutine is in `emitting`: no wake can be pending, only the clock moves
      match (if sys.clock = t then some sys else dstep I sys (.advance t)) with
      | some s1 =>
        match dstep I s1 .done with
        | some s2 => (DSt.dl I c0 s2 arrs, ok)
        | none => (st, err "done-disabled")
      | none => (st, err "advance-disabled")
    | _, _ => (st, badOp "done")
  | some "end" =>
    match st with
    | DSt.rl I sys _ arrs =>
      (st, Json.mkObj [("outs", pairs sys.outs), ("pending", pairs sys.timers),
                       ("plan", pairs (plan I { next := 0 } arrs))])
    | DSt.dl I c0 sys arrs =>
      (st, Json.mkObj [("outs", pairs sys.outs), ("pending", toJson sys.queue),
                       ("plan", pairs (delayPlan I c0 arrs))])
    | DSt.none => (st, badOp "end")
  | _ => (st, badOp "op")

def main : IO Unit := runLoop stepD DSt.none
