import StreamzVerif.Driver.Util
import StreamzVerif.Model.MapAsyncFine
/-! Line-protocol driver for the fine-grained `map_async` transition system (Model/MapAsyncFine.lean).

  {"op":"trace","p":P,"variant":"locked"|"fastPath"|"polling","life":"current"|"startReplaces"|"noPredecessorWait",
   "steps":[["A5"],["T"],[],["J0"],["D"],["X"],["S"],...]}
        one inner list per harness step; actions: "A<int>" arrive with that value, "T" tick (run the head of the
        ready queue), "J<id>" the environment resolves the future of job <id>, "D" downDone, "S" start(), "X" stop()
     -> {"accepted":true,"states":[S,..one per step..]}
      | {"accepted":false,"at":i,"act":"T","states":[..prefix..]}        the action is not enabled in the model
  S = {"ran":[handles run by the T's of this step],"ready":[handles],"holder":id|null,"lockq":[[id,woken],..],
       "queue":[ids],"workers":[[stop,"s"|"p0"|"p1"|"g1"|"g0"|"a<id>"|"e<id>"|"f<id>"|"F"],..],"workTask":w|null,
       "getters":[w,..],"aproj":"idle"|"a<id>"|"e<id>","started":[ids],"outs":[ids],"fin":[ids],
       "acked":[ids],"jobs":[[id,"c"|"cr"|"r"|"rr"|"d"],..],"waiting":[ids]}
  handles: I<id> insFirst, L<id> insWake, P<id> insPoll, K<id> ack, w<k> worker k, C<k> waitCb k, F<id> jobFirst,
           V<id> jobWake, G<k> gatherCb of worker k
  unknown input -> bad-op
-/
open Lean StreamzVerif StreamzVerif.Driver StreamzVerif.MapAsyncFine

def actOf (s : String) : Option (FAct Int) :=
  if s == "T" then some .tick
  else if s == "D" then some .downDone
  else if s == "S" then some .start
  else if s == "X" then some .stop
  else if s.startsWith "A" then (s.drop 1).toInt?.map .arrive
  else if s.startsWith "J" then (s.drop 1).toNat?.map .jobDone
  else none

def showH : H → String
  | .insFirst j => "I" ++ toString j
  | .insWake j => "L" ++ toString j
  | .insPoll j => "P" ++ toString j
  | .ack j => "K" ++ toString j
  | .worker w => "w" ++ toString w
  | .waitCb w => "C" ++ toString w
  | .jobFirst j => "F" ++ toString j
  | .jobWake j => "V" ++ toString j
  | .gatherCb w => "G" ++ toString w

def showW : W → String
  | .starting => "s"
  | .waitPrev false => "p0"
  | .waitPrev true => "p1"
  | .finished => "F"
  | .getting true => "g1"
  | .getting false => "g0"
  | .awaiting j => "a" ++ toString j
  | .emitting j true => "e" ++ toString j
  | .emitting j false => "f" ++ toString j

def showJ : JSt → String
  | .created => "c"
  | .createdResolved => "cr"
  | .running => "r"
  | .resolved => "rr"
  | .done => "d"

def render (ran : List H) (s : FSt Int) : Json :=
  Json.mkObj [
    ("ran", toJson (ran.map showH)), ("ready", toJson (s.ready.map showH)),
    ("holder", match s.holder with | some j => toJson j | none => Json.null),
    ("lockq", Json.arr (s.lockq.map (fun e => Json.arr #[toJson e.1, toJson e.2])).toArray),
    ("queue", toJson s.queue),
    ("workers", Json.arr (s.workers.map (fun k => Json.arr #[toJson k.stop, Json.str (showW k.st)])).toArray),
    ("workTask", match s.workTask with | some w => toJson w | none => Json.null), ("getters", toJson s.getters),
    ("aproj", Json.str (match aproj s with | .idle => "idle" | .awaiting j => "a" ++ toString j | .emitting j => "e" ++ toString j)),
    ("started", toJson s.started),
    ("outs", toJson s.outs), ("fin", toJson s.fin), ("acked", toJson s.acked),
    ("jobs", Json.arr (s.jobs.map (fun e => Json.arr #[toJson e.1, Json.str (showJ e.2)])).toArray),
    ("waiting", toJson (waitingIds s))]

def variantOf : Option String → Option Variant
  | none => some .locked
  | some "locked" => some .locked
  | some "fastPath" => some .fastPath
  | some "polling" => some .polling
  | _ => none

def lifeOf : Option String → Option Life
  | none => some .current
  | some "current" => some .current
  | some "startReplaces" => some .startReplaces
  | some "noPredecessorWait" => some .noPredecessorWait
  | _ => none

def applyActs (c : Cfg) (s : FSt Int) (ran : List H) : List String → Except String (FSt Int × List H)
  | [] => .ok (s, ran)
  | a :: rest =>
    match actOf a with
    | none => .error a
    | some act =>
      match step c s act with
      | none => .error a
      | some s' =>
        let ran' := match act, s.ready with
                    | .tick, h :: _ => ran ++ [h]
                    | _, _ => ran
        applyActs c s' ran' rest

def runTrace (c : Cfg) (steps : List (List String)) : Json :=
  let rec go (s : FSt Int) (i : Nat) (acc : Array Json) : List (List String) → Json
    | [] => Json.mkObj [("accepted", Json.bool true), ("states", Json.arr acc)]
    | st :: rest =>
      match applyActs c s [] st with
      | .error a => Json.mkObj [("accepted", Json.bool false), ("at", toJson i), ("act", Json.str a), ("states", Json.arr acc)]
      | .ok (s', ran) => go s' (i + 1) (acc.push (render ran s')) rest
  go (init Int) 0 #[] steps

def step' (st : Unit) (j : Json) : Unit × Json :=
  match getStr j "op" with
  | some "trace" =>
    match getNat j "p", variantOf (getStr j "variant"), lifeOf (getStr j "life"),
          (j.getObjValAs? (List (List String)) "steps").toOption with
    | some p, some v, some l, some steps => (st, runTrace { p := p, variant := v, life := l } steps)
    | _, _, _, _ => (st, badOp "trace")
  | _ => (st, badOp "op")

def main : IO Unit := runLoop step' ()
