import StreamzVerif.Driver.Util
import StreamzVerif.Model.Window
/-! Line-protocol driver for the windowed-aggregation model (Model/Window.lean).

  {"op":"reset","diff":"iloc"|"loc"|"locorig","w":3,"stream":false,"meanorig":false}  -> {"ok":true}
      diff/w : window(n=w) | window(value=w ns) repaired | window(value=w ns) as in the unrepaired tree
      stream : group-by with a streaming grouper (acc['groupers'] + diff_align) instead of a column name
      meanorig : use the unrepaired `Mean` (stores the `counts = 1` substitute)
  {"op":"batch","rows":[[idx,val|null,key],...]}  -> one object with, for every aggregation, the
      emitted result after this batch, plus the retained frames and the states:
      {"dfs":[[idx..]..],"sum":"n/d","count":i,"size":i,"mean":"n/d"|null,"mean_state":["n/d",i],
       "var0":"n/d"|null,"var1":..,"var_state":["n/d","n/d",i],"vc":[["n/d",i]..],
       "gsum":[[k,"n/d"]..],"gcount":[[k,i]..],"gsize":..,"gmean":[[k,"n/d"|null]..],"gvar0":..,"gvar1":..,
       "gsize_state":[[k,i]..],"groupers":[[k..]..]|null}
      a group-by entry is the string "assert" once an assertion of diff_align fired.
-/
open Lean StreamzVerif StreamzVerif.Driver StreamzVerif.Window

def ratJ (q : Rat) : Json := Json.str (toString q.num ++ "/" ++ toString q.den)
def oratJ : Option Rat → Json
  | none => Json.null
  | some q => ratJ q
def intJ (i : Int) : Json := toJson i
def fmapJ {κ V : Type} (kj : κ → Json) (vj : V → Json) (m : FMap κ V) : Json :=
  Json.arr (m.map (fun p => Json.arr #[kj p.1, vj p.2])).toArray

/-- A group-by pipeline: `none` once an assertion fired. -/
structure GP (S R : Type) where
  ops : GOps S R
  acc : Option (GAcc S) := none
  dead : Bool := false
  last : FMap Int R := []

def GP.step {S R : Type} (d : Diff) (stream : Bool) (p : GP S R) (b : Batch) : GP S R :=
  if p.dead then p else
  match groupbyAcc d p.ops stream p.acc b with
  | none => { p with dead := true }
  | some (a, r) => { p with acc := some a, last := r }

def GP.json {S R : Type} (vj : R → Json) (p : GP S R) : Json :=
  if p.dead then Json.str "assert" else fmapJ intJ vj p.last

structure DS where
  d : Diff
  stream : Bool
  meanorig : Bool
  sum : Option (Acc Rat) := none
  count : Option (Acc Int) := none
  size : Option (Acc Int) := none
  mean : Option (Acc (Rat × Int)) := none
  var0 : Option (Acc (Rat × Rat × Int)) := none
  var1 : Option (Acc (Rat × Rat × Int)) := none
  vc : Option (Acc (FMap Rat Int)) := none
  gsum : GP (FMap Int Rat) Rat := { ops := GroupbySum.ops }
  gcount : GP (FMap Int Int) Int := { ops := GroupbyCount.ops }
  gsize : GP (FMap Int Int) Int := { ops := GroupbySize.ops }
  gmean : GP (FMap Int Rat × FMap Int Int) (Option Rat) := { ops := GroupbyMean.ops }
  gvar0 : GP (FMap Int Rat × FMap Int Rat × FMap Int Int) (Option Rat) := { ops := GroupbyVar.ops 0 }
  gvar1 : GP (FMap Int Rat × FMap Int Rat × FMap Int Int) (Option Rat) := { ops := GroupbyVar.ops 1 }

def parseRow (j : Json) : Option Row :=
  match j with
  | .arr a =>
    if a.size = 3 then
      match (a[0]!.getInt?).toOption, (a[2]!.getInt?).toOption with
      | some i, some k =>
        match a[1]! with
        | .null => some { idx := i, val := none, key := k }
        | v => match (v.getInt?).toOption with
          | some x => some { idx := i, val := some (x : Rat), key := k }
          | none => none
      | _, _ => none
    else none
  | _ => none

def parseRows (j : Json) : Option Batch :=
  match getArr j "rows" with
  | none => none
  | some a => a.toList.mapM parseRow

def stepBatch (s : DS) (b : Batch) : DS × Json :=
  let d := s.d
  let (aS, rS) := windowAcc d Sum.ops s.sum b
  let (aC, rC) := windowAcc d Count.ops s.count b
  let (aZ, rZ) := windowAcc d Size.ops s.size b
  let (aM, rM) := windowAcc d (if s.meanorig then Mean.opsOrig else Mean.ops) s.mean b
  let (aV0, rV0) := windowAcc d (Var.ops 0) s.var0 b
  let (aV1, rV1) := windowAcc d (Var.ops 1) s.var1 b
  let (aVC, rVC) := windowAcc d ValueCounts.ops s.vc b
  let gsum := s.gsum.step d s.stream b
  let gcount := s.gcount.step d s.stream b
  let gsize := s.gsize.step d s.stream b
  let gmean := s.gmean.step d s.stream b
  let gvar0 := s.gvar0.step d s.stream b
  let gvar1 := s.gvar1.step d s.stream b
  let s' : DS := { s with sum := some aS, count := some aC, size := some aZ, mean := some aM, var0 := some aV0,
                          var1 := some aV1, vc := some aVC, gsum := gsum, gcount := gcount, gsize := gsize,
                          gmean := gmean, gvar0 := gvar0, gvar1 := gvar1 }
  let gacc := gsum.acc
  let ans := Json.mkObj [
    ("dfs", Json.arr (aS.dfs.map (fun b => Json.arr (b.map (fun r => intJ r.idx)).toArray)).toArray),
    ("sum", ratJ rS), ("count", intJ rC), ("size", intJ rZ), ("mean", oratJ rM),
    ("mean_state", Json.arr #[ratJ aM.state.1, intJ aM.state.2]),
    ("var0", oratJ rV0), ("var1", oratJ rV1),
    ("var_state", Json.arr #[ratJ aV1.state.1, ratJ aV1.state.2.1, intJ aV1.state.2.2]),
    ("vc", fmapJ ratJ intJ rVC),
    ("gsum", gsum.json ratJ), ("gcount", gcount.json intJ), ("gsize", gsize.json intJ),
    ("gmean", gmean.json oratJ), ("gvar0", gvar0.json oratJ), ("gvar1", gvar1.json oratJ),
    ("gsize_state", match gacc with | some a => fmapJ intJ intJ a.sizeState | none => Json.null),
    ("gdfs", match gacc with
      | some a => Json.arr (a.dfs.map (fun b => Json.arr (b.map (fun r => intJ r.idx)).toArray)).toArray
      | none => Json.null),
    ("groupers", match gacc with
      | some a => (match a.groupers with
        | some gs => Json.arr (gs.map (fun g => Json.arr (g.map intJ).toArray)).toArray
        | none => Json.null)
      | none => Json.null)]
  (s', ans)

def step (st : Option DS) (j : Json) : Option DS × Json :=
  match getStr j "op" with
  | some "reset" =>
    match getStr j "diff", getInt j "w" with
    | some dn, some w =>
      let d? : Option Diff :=
        if dn = "iloc" then (if w < 0 then none else some (Diff.iloc w.toNat))
        else if dn = "loc" then some (Diff.loc w)
        else if dn = "locorig" then some (Diff.locOrig w)
        else none
      match d? with
      | some d => (some { d := d, stream := (getBool j "stream").getD false,
                          meanorig := (getBool j "meanorig").getD false }, Json.mkObj [("ok", true)])
      | none => (st, badOp "diff")
    | _, _ => (st, badOp "reset")
  | some "batch" =>
    match st, parseRows j with
    | some s, some b => let (s', a) := stepBatch s b; (some s', a)
    | _, _ => (st, badOp "batch")
  | _ => (st, badOp "op")

def main : IO Unit := runLoop step none
