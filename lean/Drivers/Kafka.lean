import StreamzVerif.Driver.Util
import StreamzVerif.Model.Kafka
/-! Line-protocol driver for the FromKafkaBatched model.
  {"op":"reset","mb":3,"refresh":true,"latest":false,"npart_cfg":null|2,"nparts":2} -> {"ok":true}
  {"op":"produce","p":0,"k":2} | {"op":"add","m":1} | {"op":"trunc","p":0,"k":1}     -> {"ok":true}
  {"op":"poll"}            -> {"emit":[[p,lo,hi,[offsets of get_message_batch]],...]}   (partition order)
  {"op":"complete","p":0,"i":1} -> {"commit":[[p,offset]]}  ([] when the batch does not exist / is already done)
  {"op":"fail","p":0,"i":1}     -> {"ok":true}      (the handling of that batch raised)
  {"op":"restart"}         -> {"positions":[..]}   (positions of the partitions the new process knows)
  {"op":"state"}           -> {"parts":[[low,high,committed,known,pos,nbatches],...],"latest":bool}
-/
open Lean StreamzVerif StreamzVerif.Driver StreamzVerif.Kafka

structure DSt where
  cfg : Cfg
  s : St
  live : Bool

def ok : Json := Json.mkObj [("ok", true)]

def emitJson (cfg : Cfg) (s : St) (s' : St) : Json :=
  let rows := (List.range s'.parts.length).flatMap (fun j =>
    (emittedBy cfg s .poll j).map (fun b =>
      Json.arr #[toJson j, toJson b.lo, toJson b.hi, toJson (batchOffsets b)]))
  Json.mkObj [("emit", Json.arr rows.toArray)]

def dstep (d : DSt) (j : Json) : DSt × Json :=
  match getStr j "op" with
  | some "reset" =>
    match getNat j "mb", getBool j "refresh", getBool j "latest", getNat j "nparts" with
    | some mb, some rf, some lt, some n =>
      let cfg : Cfg := { maxBatch := mb, refresh := rf, latest := lt, npartCfg := getNat j "npart_cfg" }
      ({ cfg := cfg, s := init n, live := true }, ok)
    | _, _, _, _ => (d, badOp "reset")
  | some op =>
    if !d.live then (d, badOp "no case") else
    let act (a : Act) : DSt := { d with s := step d.cfg d.s a }
    match op with
    | "produce" =>
      match getNat j "p", getNat j "k" with
      | some p, some k => (act (.produce p k), ok)
      | _, _ => (d, badOp "produce")
    | "add" =>
      match getNat j "m" with
      | some m => (act (.addPartitions m), ok)
      | _ => (d, badOp "add")
    | "trunc" =>
      match getNat j "p", getNat j "k" with
      | some p, some k => (act (.truncate p k), ok)
      | _, _ => (d, badOp "trunc")
    | "poll" =>
      let d' := act .poll
      (d', emitJson d.cfg d.s d'.s)
    | "complete" =>
      match getNat j "p", getNat j "i" with
      | some p, some i =>
        let d' := act (.complete p i)
        let before := (d.s.parts[p]?.map (·.batches)).getD []
        let commits : List Json :=
          match before[i]? with
          | some b => if b.done || b.failed then [] else [Json.arr #[toJson p, toJson ((d'.s.parts[p]?.map (·.committed)).getD NONE)]]
          | none => []
        (d', Json.mkObj [("commit", Json.arr commits.toArray)])
      | _, _ => (d, badOp "complete")
    | "fail" =>
      match getNat j "p", getNat j "i" with
      | some p, some i => (act (.fail p i), ok)
      | _, _ => (d, badOp "fail")
    | "restart" =>
      let d' := act .restart
      (d', Json.mkObj [("positions", toJson ((d'.s.parts.filter (·.known)).map (·.pos)))])
    | "state" =>
      (d, Json.mkObj [("parts", Json.arr (d.s.parts.map (fun q =>
            Json.arr #[toJson q.low, toJson q.high, toJson q.committed, toJson q.known, toJson q.pos,
                       toJson q.batches.length])).toArray),
                      ("latest", d.s.resetLatest)])
    | _ => (d, badOp "op")
  | none => (d, badOp "op")

def main : IO Unit :=
  runLoop dstep { cfg := { maxBatch := 1, refresh := false, latest := false, npartCfg := none },
                  s := init 0, live := false }
