import StreamzVerif.Driver.Util
import StreamzVerif.Model.SourceFuture
/-! Line-protocol driver for Model/SourceFuture.lean (a Source whose run() returns a Future).
  {"op":"reset","note":true}                      -> {"ok":true}
  {"op":"start"|"stop"|"resume"|"wake"}           -> {"stopped":b,"runLive":b,"restart":b,"phase":"none|atCheck|inCycle|finishing","cycles":n}
-/
open Lean StreamzVerif StreamzVerif.Driver StreamzVerif.SourceFuture

def phaseStr : Option Phase → String
  | none => "none"
  | some .atCheck => "atCheck"
  | some .inCycle => "inCycle"
  | some .finishing => "finishing"

def stJ (s : St) : Json :=
  Json.mkObj [("stopped", s.stopped), ("runLive", s.runLive), ("restart", s.restart), ("phase", phaseStr s.loop), ("cycles", s.cycles)]

def dstep (st : Bool × St) (j : Json) : (Bool × St) × Json :=
  let act (a : Act) := let s' := step st.1 st.2 a; ((st.1, s'), stJ s')
  match getStr j "op" with
  | some "reset" =>
    (match getBool j "note" with
     | some n => ((n, init), Json.mkObj [("ok", true)])
     | none => (st, badOp "note"))
  | some "start" => act .start
  | some "stop" => act .stop
  | some "resume" => act .resume
  | some "wake" => act .wake
  | _ => (st, badOp "op")

def main : IO Unit := runLoop dstep (true, init)
