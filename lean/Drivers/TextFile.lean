import StreamzVerif.Driver.Util
import StreamzVerif.Model.TextFile
/-! Line-protocol driver for the from_textfile / filenames models.
  {"op":"reset","model":"textfile","delim":"ab"}   -> {"ok":true} | raised:ValueError for ""
  {"op":"chunk","s":"..."}                          -> {"emit":[...],"buffer":"..."}
  {"op":"reset","model":"filenames","seen":[..]}    -> {"ok":true}
  {"op":"listing","l":[3,1,2]}                      -> {"emit":[...]}
-/
open Lean StreamzVerif StreamzVerif.Driver StreamzVerif.TextFile

inductive DSt
  | none
  | text (d : Text) (s : St)
  | files (s : FSt)

def step (st : DSt) (j : Json) : DSt × Json :=
  match getStr j "op" with
  | some "reset" =>
    match getStr j "model" with
    | some "textfile" =>
      match getStr j "delim" with
      | some d =>
        -- Python: `'' in buffer` is True and `buffer.split('')` raises ValueError; the model
        -- accepts the header and reports the error at the first non-empty chunk.
        (DSt.text d.toList { buffer := [] }, Json.mkObj [("ok", true)])
      | none => (st, badOp "delim")
    | some "filenames" =>
      (DSt.files { seen := (getNatList j "seen").getD [] }, Json.mkObj [("ok", true)])
    | _ => (st, badOp "model")
  | some "chunk" =>
    match st, getStr j "s" with
    | DSt.text d s, some c =>
      if d.isEmpty then
        if c.isEmpty then (st, Json.mkObj [("emit", Json.arr #[]), ("buffer", String.ofList s.buffer)])
        else (st, Json.mkObj [("err", "raised:ValueError")])
      else
      let (s', e) := match getNat j "fail_at" with
        | some k => if c.isEmpty then (s, []) else feedFail d s c.toList k
        | none => poll d s c.toList
      (DSt.text d s', Json.mkObj [("emit", Json.arr (e.map (fun r => Json.str (String.ofList r))).toArray),
                                  ("buffer", String.ofList s'.buffer)])
    | _, _ => (st, badOp "chunk")
  | some "listing" =>
    match st, getNatList j "l" with
    | DSt.files s, some l =>
      let (s', e) := match getNat j "fail_on" with
        | some bad => fpollFail s l bad
        | none => fpoll s l
      (DSt.files s', Json.mkObj [("emit", toJson e)])
    | _, _ => (st, badOp "listing")
  | _ => (st, badOp "op")

def main : IO Unit := runLoop step DSt.none
