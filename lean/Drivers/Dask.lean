import StreamzVerif.Driver.Util
import StreamzVerif.Model.Dask
import StreamzVerif.Model.DaskFail
/-! Line-protocol driver for the Dask segment model (C20).

Values: an integer, or a tuple written {"t":[v, …]} (harness `common.canon`).
Kinds (JSON objects, field "k"):
  {"k":"map","f":F1} {"k":"starmap","f":FS} {"k":"accumulate","f":F2,"start":v|null}
  {"k":"accumulate_rs","f":FRS,"start":v|null} {"k":"zip_map","f":F1} {"k":"union_map","f":F1}
  {"k":"buffer","n":N} {"k":"partition","n":N} {"k":"sliding_window","n":N,"partial":B}
Function catalogue (Python twins in harness/props/c20.py):
  F1: inc dbl neg sum pair first     FS: add* rev* cnt*     F2: add mix last     FRS: rs_sum rs_prev

  {"op":"reset","seg":[kind,…]}                         -> {"ok":true}
  {"op":"local","xs":[v,…],"md":[[r,…],…]}              -> {"out":[v,…],"md":[[r,…],…],"held":[[r,…] per node]}
       ("md" optional: default [[0],[1],…])
  {"op":"dask","xs":…,"md":…,"locked":B,"p":[t…],"sigma":[t…],"g":[t…],"T":[[t…] per node]}
       -> {"out":…,"md":…,"held":…,"one_at_a_time":B}    (missing times are 0)
  {"op":"fault","stages":[{"k":"map","f":"inc"|"dbl","fail":[m,r]|null} | {"k":"acc","start":s,"fail":[m,r]|null},…],"xs":[n,…]}
       -> {"local":[v|null,…],"dask":[v|null,…]}          (Model/DaskFail.lean; naturals; a function fails when the sum of its
                                                            arguments is r mod m; null = the emit raised)
-/
open Lean StreamzVerif StreamzVerif.Driver StreamzVerif.Dask

inductive Val where
  | int (n : Int)
  | tup (l : List Val)
  deriving Inhabited

partial def Val.toJson : Val → Json
  | .int n => Json.num (JsonNumber.fromInt n)
  | .tup l => Json.mkObj [("t", Json.arr (l.map Val.toJson).toArray)]

partial def Val.ofJson (j : Json) : Option Val :=
  match j with
  | .num _ => (j.getInt?.toOption).map Val.int
  | .obj _ =>
    match getArr j "t" with
    | some a => (a.toList.mapM Val.ofJson).map Val.tup
    | none => none
  | _ => none

partial def Val.sumv : Val → Int
  | .int n => n
  | .tup l => (l.map Val.sumv).foldl (· + ·) 0

partial def Val.mapLeaves (f : Int → Int) : Val → Val
  | .int n => .int (f n)
  | .tup l => .tup (l.map (Val.mapLeaves f))

def Val.args : Val → List Val
  | .tup l => l
  | v => [v]

def fn1 : String → Option (Val → Val)
  | "inc" => some (Val.mapLeaves (· + 1))
  | "dbl" => some (Val.mapLeaves (· * 2))
  | "neg" => some (Val.mapLeaves (fun n => -n))
  | "sum" => some (fun v => .int v.sumv)
  | "pair" => some (fun v => .tup [v, v])
  | "first" => some (fun v => match v with | .tup (h :: _) => h | w => w)
  | _ => none

def fnS : String → Option (Val → Val)
  | "add*" => some (fun v => .int ((v.args.map Val.sumv).foldl (· + ·) 0))
  | "rev*" => some (fun v => .tup v.args.reverse)
  | "cnt*" => some (fun v => .int v.args.length)
  | _ => none

def fn2 : String → Option (Val → Val → Val)
  | "add" => some (fun a b => .int (a.sumv + b.sumv))
  | "mix" => some (fun a b => .int (2 * a.sumv + b.sumv))
  | "last" => some (fun _ b => b)
  | _ => none

def fnRS : String → Option (Val → Val → Val × Val)
  | "rs_sum" => some (fun s x => (.int (s.sumv + x.sumv), .int (2 * s.sumv + x.sumv)))
  | "rs_prev" => some (fun s x => (x, .tup [s, x]))
  | _ => none

def optStart (j : Json) : Option (Option Val) :=
  match j.getObjVal? "start" with
  | .ok .null => some none
  | .ok v => (Val.ofJson v).map some
  | .error _ => some none

def kindOf (j : Json) : Option (Kind Val) := do
  let k ← getStr j "k"
  match k with
  | "map" => (fn1 (← getStr j "f")).map Kind.map
  | "starmap" => (fnS (← getStr j "f")).map Kind.starmap
  | "accumulate" => do let f ← fn2 (← getStr j "f"); let s ← optStart j; pure (Kind.accumulate f s)
  | "accumulate_rs" => do let f ← fnRS (← getStr j "f"); let s ← optStart j; pure (Kind.accumulateRS f s)
  | "zip_map" => (fn1 (← getStr j "f")).map Kind.zipMap
  | "union_map" => (fn1 (← getStr j "f")).map Kind.unionMap
  | "buffer" => (getNat j "n").map Kind.buffer
  | "partition" => (getNat j "n").map Kind.partition
  | "sliding_window" => do pure (Kind.slidingWindow (← getNat j "n") ((getBool j "partial").getD true))
  | _ => none

def inputs (j : Json) : Option (List (El Val)) := do
  let xs ← (← getArr j "xs").toList.mapM Val.ofJson
  let mds : List (List Nat) :=
    match getArr j "md" with
    | some a => a.toList.map (fun m => ((fromJson? m : Except String (List Nat)).toOption).getD [])
    | none => (List.range xs.length).map (fun i => [i])
  pure ((xs.zip mds).map (fun (v, m) => { v := v, md := m }))

def outJson (out : List (El Val)) (helds : List (List Nat)) : List (String × Json) :=
  [("out", Json.arr (out.map (fun e => e.v.toJson)).toArray),
   ("md", toJson (out.map (·.md))),
   ("held", toJson helds)]

def timesOf (j : Json) (k : String) : Nat → Nat :=
  let l := (getNatList j k).getD []
  fun i => l.getD i 0

def failSel (j : Json) : Nat → Bool :=
  match getNatList j "fail" with
  | some [m, r] => fun t => m != 0 && t % m == r
  | _ => fun _ => false

def faultStage (j : Json) : Option (DaskFail.Stage × Nat) := do
  let sel := failSel j
  match ← getStr j "k" with
  | "map" =>
    match ← getStr j "f" with
    | "inc" => some (.map (fun x => if sel x then none else some (x + 1)), 0)
    | "dbl" => some (.map (fun x => if sel x then none else some (2 * x)), 0)
    | _ => none
  | "acc" => some (.acc (fun s x => if sel (s + x) then none else some (s + x)), ← getNat j "start")
  | _ => none

def optsJson (l : List (Option Nat)) : Json :=
  Json.arr (l.map (fun o => match o with | some n => toJson n | none => Json.null)).toArray

def step (ks : List (Kind Val)) (j : Json) : List (Kind Val) × Json :=
  match getStr j "op" with
  | some "fault" =>
    match (getArr j "stages").bind (fun a => a.toList.mapM faultStage), getNatList j "xs" with
    | some st, some xs =>
      (ks, Json.mkObj [("local", optsJson (DaskFail.lrun st xs).2), ("dask", optsJson (DaskFail.drun (DaskFail.lift st) xs).2)])
    | _, _ => (ks, badOp "fault")
  | some "reset" =>
    match (getArr j "seg").bind (fun a => a.toList.mapM kindOf) with
    | some ks' => (ks', Json.mkObj [("ok", true)])
    | none => (ks, badOp "seg")
  | some "local" =>
    match inputs j with
    | some xs =>
      let r := lseg Val.tup ks xs
      (ks, Json.mkObj (outJson r.2 (r.1.map held)))
    | none => (ks, badOp "xs")
  | some "dask" =>
    match inputs j with
    | some xs =>
      let p := timesOf j "p"; let σ := timesOf j "sigma"; let g := timesOf j "g"
      let Tl : List (List Nat) :=
        match getArr j "T" with
        | some a => a.toList.map (fun r => ((fromJson? r : Except String (List Nat)).toOption).getD [])
        | none => []
      let T : Nat → Nat → Nat := fun i k => (Tl.getD i []).getD k 0
      let locked := (getBool j "locked").getD false
      let out := daskRun Val.tup locked p σ T g ks xs
      let sts := daskStates Val.tup p σ T ks xs
      let sc := scatterArrs (V := Val) p σ 0 xs
      let ga := gatherArrs Val.tup g 0 (dseg Val.tup T 0 ks (asyncOut sc)).2
      let one : Bool := decide (OneAtATime sc) && decide (OneAtATime ga)
      (ks, Json.mkObj (outJson out (sts.map (fun s => held s.st)) ++ [("one_at_a_time", Json.bool one)]))
    | none => (ks, badOp "xs")
  | _ => (ks, badOp "op")

def main : IO Unit := runLoop step ([] : List (Kind Val))
