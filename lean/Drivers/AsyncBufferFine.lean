import StreamzVerif.Driver.Util
import StreamzVerif.Model.AsyncBufferFine
/-! Line-protocol driver for the fine-grained `buffer(n)` transition system (Model/AsyncBufferFine.lean).

  {"op":"trace","n":N,"steps":[["A5"],["R"],[],["D"],["K"],...]}
        one inner list per harness step; actions: "A<int>" arrive with that value, "R" resumeCb, "D" downDone, "K" ack
     -> {"accepted":true,"states":[S,..one per step..]}
      | {"accepted":false,"at":i,"act":"R","states":[..prefix..]}        the action is not enabled in the model
  S = {"items":[ids],"putters":[ids],"cb":"W"|"E<id>"|"H<id>"|"R<id>"|"R-","acks":[ids],"acked":[ids],
       "outs":[[id,v],..],"cnt":[[id,count,fires],..],"fired":[ids],"settled":b}
        cb: W waitingGet, H<id> resumed (hand-off window), E<id> emitting, R<id>/R- running (release pending / start-up)
  {"op":"settled","n":N,"acts":["A5","D",...]}   the SETTLED model (Model/AsyncBuffer.lean, downAsync) on external actions and
        the fine model quiesced after each of them -> {"equal":b,"fine":S,"queue":[ids],...}   (sanity of the refinement)
  unknown input -> bad-op
-/
open Lean StreamzVerif StreamzVerif.Driver StreamzVerif.AsyncBuffer StreamzVerif.AsyncBufferFine

def actOf (s : String) : Option (FAct Int) :=
  if s == "R" then some .resumeCb
  else if s == "D" then some .downDone
  else if s == "K" then some .ack
  else if s.startsWith "A" then (s.drop 1).toInt?.map .arrive
  else none

def showCb : AsyncBufferFine.Cb Int → String
  | .waitingGet => "W"
  | .resumed it => "H" ++ toString it.id
  | .emitting it => "E" ++ toString it.id
  | .running none => "R-"
  | .running (some it) => "R" ++ toString it.id

def render (s : FSt Int) : Json :=
  let all := s.fin ++ s.cb.items ++ s.items ++ s.putters
  Json.mkObj [
    ("items", toJson (s.items.map (·.id))), ("putters", toJson (s.putters.map (·.id))), ("cb", Json.str (showCb s.cb)),
    ("acks", toJson s.acks), ("acked", toJson s.acked),
    ("outs", Json.arr (s.outs.map (fun p => Json.arr #[toJson p.1, toJson p.2])).toArray),
    ("cnt", Json.arr (all.map (fun it => Json.arr #[toJson it.id, toJson it.cnt, toJson it.fires])).toArray),
    ("fired", toJson (s.log.filterMap (fun e => match e with | Ev.fire i => some i | _ => none))),
    ("settled", toJson ((match s.cb with | .waitingGet => true | .emitting _ => true | _ => false) && s.acks.isEmpty))]

def applyActs (n : Nat) (s : FSt Int) : List String → Except String (FSt Int)
  | [] => .ok s
  | a :: rest =>
    match actOf a with
    | none => .error a
    | some act =>
      match AsyncBufferFine.step n s act with
      | none => .error a
      | some s' => applyActs n s' rest

def runTrace (n : Nat) (steps : List (List String)) : Json :=
  let rec go (s : FSt Int) (i : Nat) (acc : Array Json) : List (List String) → Json
    | [] => Json.mkObj [("accepted", Json.bool true), ("states", Json.arr acc)]
    | st :: rest =>
      match applyActs n s st with
      | .error a => Json.mkObj [("accepted", Json.bool false), ("at", toJson i), ("act", Json.str a), ("states", Json.arr acc)]
      | .ok s' => go s' (i + 1) (acc.push (render s')) rest
  go (AsyncBufferFine.init Int) 0 #[] steps

def settledCheck (n : Nat) (acts : List String) : Json :=
  let bacts : List (BAct Int) := acts.filterMap (fun a =>
    match actOf a with
    | some (.arrive x) => some (BAct.arrive x)
    | some .downDone => some BAct.downDone
    | _ => none)
  let f := qrun n (qinit n Int) bacts
  let b := brun ⟨n, true⟩ (binit Int) bacts
  let a := AsyncBufferFine.abs f
  Json.mkObj [("equal", toJson (a.queue == b.queue && a.putters == b.putters && a.cb == b.cb && a.ins == b.ins &&
                 a.outs == b.outs && a.fin == b.fin && a.accepted == b.accepted && a.log == b.log)),
              ("fine", render f)]

def step (st : Unit) (j : Json) : Unit × Json :=
  match getStr j "op" with
  | some "trace" =>
    match getNat j "n", (j.getObjValAs? (List (List String)) "steps").toOption with
    | some n, some steps => (st, runTrace n steps)
    | _, _ => (st, badOp "trace")
  | some "settled" =>
    match getNat j "n", (j.getObjValAs? (List String) "acts").toOption with
    | some n, some acts => (st, settledCheck n acts)
    | _, _ => (st, badOp "settled")
  | _ => (st, badOp "op")

def main : IO Unit := runLoop step ()
