import StreamzVerif.Driver.Util
import StreamzVerif.Model.Source
/-! Line-protocol driver for the Source life-cycle models (trace acceptance).
  {"op":"reset","kind":"poll","fixed":true}                              -> {"ok":true}
  {"op":"reset","kind":"iter","fixed":true,"items":[0,1,2],"shared":false} -> {"ok":true}
  {"op":"start"} | {"op":"stop"} | {"op":"resume","i":0}
      -> {"ev":[...],"stopped":b,"live":n,"runLive":b}      events produced by the action, oldest first
      -> {"err":"no-loop"} when `resume i` names no live invocation (action not enabled)
  events (poll): "run-begin" "cycle-end" "cycle-begin" "run-exit"
  events (iter): "run-begin" "take:x" "emit:x" "done" "run-exit" "exhausted"
-/
open Lean StreamzVerif StreamzVerif.Driver StreamzVerif.Source

inductive DSt
  | none
  | poll (fixed : Bool) (s : St)
  | iter (fixed : Bool) (c : Cfg) (s : ISt)

def evStr : IEv → String
  | .begin => "run-begin"
  | .take x => "take:" ++ toString x
  | .emit x => "emit:" ++ toString x
  | .done => "done"
  | .exit => "run-exit"
  | .exhausted => "exhausted"

def answer (evs : List String) (stopped : Bool) (live : Nat) (runLive : Bool) : Json :=
  Json.mkObj [("ev", toJson evs), ("stopped", stopped), ("live", live), ("runLive", runLive)]

def pollAct (fixed : Bool) (s : St) (a : Act) : DSt × Json :=
  let s' := step fixed s a
  let evs : List String :=
    match a with
    | .resume i =>
      (match s.loops[i]? with
        | some Phase.atCheck => ["run-begin"]
        | some Phase.inCycle => ["cycle-end"]
        | none => [])
      ++ (if s'.cycles > s.cycles then ["cycle-begin"] else [])
      ++ (if s'.loops.length < s.loops.length then ["run-exit"] else [])
    | _ => []
  (DSt.poll fixed s', answer evs s'.stopped s'.loops.length s'.runLive)

def iterAct (fixed : Bool) (c : Cfg) (s : ISt) (a : Act) : DSt × Json :=
  let s' := istep fixed c s a
  let new := (s'.log.take (s'.log.length - s.log.length)).reverse
  (DSt.iter fixed c s', answer (new.map evStr) s'.stopped s'.loops.length s'.runLive)

def act (st : DSt) (a : Act) : DSt × Json :=
  match st with
  | .none => (st, badOp "no model")
  | .poll f s =>
    (match a with
     | .resume i => if s.loops[i]?.isNone then (st, Json.mkObj [("err", "no-loop")]) else pollAct f s a
     | _ => pollAct f s a)
  | .iter f c s =>
    (match a with
     | .resume i => if s.loops[i]?.isNone then (st, Json.mkObj [("err", "no-loop")]) else iterAct f c s a
     | _ => iterAct f c s a)

def dstep (st : DSt) (j : Json) : DSt × Json :=
  match getStr j "op" with
  | some "reset" =>
    match getStr j "kind", getBool j "fixed" with
    | some "poll", some f => (DSt.poll f init, Json.mkObj [("ok", true)])
    | some "iter", some f =>
      (match getNatList j "items", getBool j "shared" with
       | some items, some sh => (DSt.iter f { items := items, shared := sh } iinit, Json.mkObj [("ok", true)])
       | _, _ => (st, badOp "items/shared"))
    | _, _ => (st, badOp "kind/fixed")
  | some "start" => act st .start
  | some "stop" => act st .stop
  | some "resume" =>
    (match getNat j "i" with
     | some i => act st (.resume i)
     | none => (st, badOp "i"))
  | _ => (st, badOp "op")

def main : IO Unit := runLoop dstep DSt.none
