import StreamzVerif.Driver.Util
import StreamzVerif.Model.LoopCfg
/-! Line-protocol driver for the loop/mode configuration model (C19).
  {"op":"reset","dask":false,"legacy":false}                      -> {"ok":true}
  {"op":"new","ups":[0,1],"loop":L,"asyn":A,"ensure":true}        -> {"outcome":"ok"|"raised"|"fuel","bg":k,"nodes":[[L,A],...]}
     L = null | "current" | "background" | "dask" | "other<k>"    A = null | true | false
     `nodes` lists loop class and mode of every successfully constructed node, in construction order.
-/
open Lean StreamzVerif StreamzVerif.Driver StreamzVerif.LoopCfg

def loopToJson : Option LoopCfg.Loop → Json
  | none => Json.null
  | some .current => "current"
  | some .background => "background"
  | some .dask => "dask"
  | some (.explicit k) => Json.str ("other" ++ toString k)

def asynToJson : Option Bool → Json
  | none => Json.null
  | some b => Json.bool b

/-- `none` = malformed, `some none` = null / absent. -/
def parseLoop (j : Json) : Option (Option LoopCfg.Loop) :=
  match j.getObjVal? "loop" with
  | .error _ => some none
  | .ok Json.null => some none
  | .ok (Json.str "current") => some (some .current)
  | .ok (Json.str "background") => some (some .background)
  | .ok (Json.str "dask") => some (some .dask)
  | .ok (Json.str s) =>
    if s.startsWith "other" then (s.drop 5).toNat?.map (fun k => some (.explicit k)) else none
  | .ok _ => none

def parseAsyn (j : Json) : Option (Option Bool) :=
  match j.getObjVal? "asyn" with
  | .error _ => some none
  | .ok Json.null => some none
  | .ok (Json.bool b) => some (some b)
  | .ok _ => none

def outcomeStr : Outcome → String
  | .ok => "ok" | .raised => "raised" | .outOfFuel => "fuel"

def step (st : Option World) (j : Json) : Option World × Json :=
  match getStr j "op" with
  | some "reset" =>
    (some (World.empty ((getBool j "dask").getD false) ((getBool j "legacy").getD false)),
     Json.mkObj [("ok", true)])
  | some "new" =>
    match st, getNatList j "ups", parseLoop j, parseAsyn j, getBool j "ensure" with
    | some w, some ups, some l, some a, some e =>
      if ups.any (fun u => decide (w.size ≤ u)) then (st, badOp "ups") else
      let r := construct w { ups := ups, loop := l, asyn := a, ensure := e }
      let w' := r.1
      let nodes := (List.range w'.size).map fun i => Json.arr #[loopToJson (w'.loop i), asynToJson (w'.asyn i)]
      (some w', Json.mkObj [("outcome", outcomeStr r.2), ("bg", w'.bg), ("nodes", Json.arr nodes.toArray)])
    | _, _, _, _, _ => (st, badOp "new")
  | _ => (st, badOp "op")

def main : IO Unit := runLoop step none
