import StreamzVerif.Driver.Util
import StreamzVerif.Model.Agg
/-! Line-protocol driver for the aggregation model (C06; direct mode also used for C12-style state checks).

Numbers: a rational is `[num, den]`, NaN is `null`, counts are plain integers.  A Series indexed by
group key is a list of `[key, value]` sorted by key.  Input column values are JSON integers or null.

  {"op":"reset","mode":"direct","agg":A,"ddof":d}          -> {"ok":true}
      A ∈ sum count size mean mean_orig var value_counts gsum gcount gsize gmean gvar
  {"op":"batch","x":[..]}            (scalar aggs / value_counts)  -> {"state":S,"result":R}
  {"op":"batch","x":[..],"g":[..]}   (groupby aggs)                -> {"state":S,"result":R}
  {"op":"old","x":[..](,"g":[..])}   `on_old` on the current state -> {"state":S,"result":R}
  {"op":"push"} / {"op":"pop"}       save / restore the node state (prefix-tree exploration) -> {"ok":true}
      (`batch` = `accumulator` + the accumulate node: initial on first use, state kept when `on_new` raises)

  {"op":"reset","mode":"api","cols":[names],"pipe":[stage..],"target":T} -> {"ok":true}
      stage  = ["filter",M] | ["assign",name,E] | ["select",[names]]
      E      = ["col",name] | ["bin",op,E,E] | ["binr",op,E,int] | ["binl",op,int,E] | ["neg",E]     op ∈ add sub mul
      M      = ["cmp",c,E,E] | ["cmpr",c,E,int] | ["and",M,M] | ["or",M,M] | ["not",M]               c ∈ lt le gt ge eq ne
      T      = {"kind":"col","agg":A,"ddof":d,"expr":E}              A ∈ sum count size mean var value_counts
             | {"kind":"frame","agg":A}                              A ∈ sum count size mean   (per column)
             | {"kind":"group","agg":A,"ddof":d,"key":E,"val":name}  A ∈ sum count size mean var
  {"op":"batch","cols":{name:[..],..}} -> {"frame":{"cols":[..],"rows":[[..]..]},"operand":[..],"result":R}
      frame = the pipeline's output for this batch (per-batch map semantics), operand = the aggregated column
      expression (kind col) / the grouper Series (kind group) for this batch, R = emission after this batch
      (kind frame: R = {name: r, ..}, no operand).
Unknown or ill-formed input -> {"bad-op": why}.
-/
open Lean StreamzVerif StreamzVerif.Driver StreamzVerif.Agg

/-! ### JSON encoding -/

def intJ (i : Int) : Json := Json.num (JsonNumber.fromInt i)
def ratJ (q : Rat) : Json := Json.arr #[intJ q.num, intJ (q.den : Nat)]
def valJ : Val → Json
  | none => Json.null
  | some q => ratJ q
def resJ : Res → Json
  | .ok v => valJ v
def mapJ {V : Type} (f : V → Json) (m : GMap V) : Json :=
  Json.arr ((m.mergeSort (fun a b => decide (a.1 ≤ b.1))).map (fun p => Json.arr #[ratJ p.1, f p.2])).toArray

def numRat (n : JsonNumber) : Rat := (n.mantissa : Rat) / ((10 ^ n.exponent : Nat) : Rat)
def valOf : Json → Option Val
  | .null => some none
  | .num n => some (some (numRat n))
  | _ => none
def colOf (j : Json) : Option Col :=
  match j with
  | .arr a => a.toList.mapM valOf
  | _ => none
def getCol (j : Json) (k : String) : Option Col :=
  match j.getObjVal? k with
  | .ok v => colOf v
  | _ => none
def ratOf : Json → Option Rat
  | .num n => some (numRat n)
  | _ => none

def binOf : String → Option BinOp
  | "add" => some .add | "sub" => some .sub | "mul" => some .mul | _ => none
def cmpOf : String → Option CmpOp
  | "lt" => some .lt | "le" => some .le | "gt" => some .gt | "ge" => some .ge
  | "eq" => some .eq | "ne" => some .ne | _ => none

partial def cexprOf (j : Json) : Option CExpr :=
  match j with
  | .arr #[.str "col", .str c] => some (.col c)
  | .arr #[.str "bin", .str op, a, b] => do some (.bin (← binOf op) (← cexprOf a) (← cexprOf b))
  | .arr #[.str "binr", .str op, a, q] => do some (.binr (← binOf op) (← cexprOf a) (← ratOf q))
  | .arr #[.str "binl", .str op, q, a] => do some (.binl (← binOf op) (← ratOf q) (← cexprOf a))
  | .arr #[.str "neg", a] => do some (.neg (← cexprOf a))
  | _ => none

partial def mexprOf (j : Json) : Option MExpr :=
  match j with
  | .arr #[.str "cmp", .str op, a, b] => do some (.cmp (← cmpOf op) (← cexprOf a) (← cexprOf b))
  | .arr #[.str "cmpr", .str op, a, q] => do some (.cmpr (← cmpOf op) (← cexprOf a) (← ratOf q))
  | .arr #[.str "and", a, b] => do some (.and (← mexprOf a) (← mexprOf b))
  | .arr #[.str "or", a, b] => do some (.or (← mexprOf a) (← mexprOf b))
  | .arr #[.str "not", a] => do some (.not (← mexprOf a))
  | _ => none

def strList (j : Json) : Option (List String) :=
  match j with
  | .arr a => a.toList.mapM (fun x => match x with | .str s => some s | _ => none)
  | _ => none

def stageOf (j : Json) : Option Stage :=
  match j with
  | .arr #[.str "filter", m] => do some (.filter (← mexprOf m))
  | .arr #[.str "assign", .str c, e] => do some (.assign c (← cexprOf e))
  | .arr #[.str "select", cs] => do some (.select (← strList cs))
  | _ => none

/-! ### one aggregation with its node state -/

inductive AState
  | sum (s : Option Rat)
  | count (s : Option Int)
  | size (s : Option Int)
  | mean (s : Option MeanSt)
  | meanOrig (s : Option MeanSt)
  | var (ddof : Nat) (s : Option VarSt)
  | vc (s : Option (GMap Int))
  | gsum (s : Option (GMap Rat))
  | gcount (s : Option (GMap Int))
  | gsize (s : Option (GMap Int))
  | gmean (s : Option GMeanSt)
  | gvar (ddof : Nat) (s : Option GVarSt)

def AState.ofName (a : String) (ddof : Nat) : Option AState :=
  match a with
  | "sum" => some (.sum none) | "count" => some (.count none) | "size" => some (.size none)
  | "mean" => some (.mean none) | "mean_orig" => some (.meanOrig none)
  | "var" => some (.var ddof none) | "value_counts" => some (.vc none)
  | "gsum" => some (.gsum none) | "gcount" => some (.gcount none) | "gsize" => some (.gsize none)
  | "gmean" => some (.gmean none) | "gvar" => some (.gvar ddof none)
  | _ => none

def AState.grouped : AState → Bool
  | .gsum _ | .gcount _ | .gsize _ | .gmean _ | .gvar _ _ => true
  | _ => false

def meanStJ (s : MeanSt) : Json := Json.mkObj [("totals", ratJ s.totals), ("counts", intJ s.counts)]
def varStJ (s : VarSt) : Json :=
  Json.mkObj [("x", ratJ s.x), ("x2", ratJ s.x2), ("n", intJ s.n), ("pyint", s.pyint)]
def gmeanStJ (s : GMeanSt) : Json := Json.mkObj [("totals", mapJ ratJ s.totals), ("counts", mapJ intJ s.counts)]
def gvarStJ (s : GVarSt) : Json := Json.mkObj [("x", mapJ ratJ s.x), ("x2", mapJ ratJ s.x2), ("n", mapJ intJ s.n)]

def optJ {σ : Type} (f : σ → Json) : Option σ → Json
  | none => Json.null
  | some s => f s

def AState.stateJ : AState → Json
  | .sum s => optJ ratJ s | .count s => optJ intJ s | .size s => optJ intJ s
  | .mean s => optJ meanStJ s | .meanOrig s => optJ meanStJ s | .var _ s => optJ varStJ s
  | .vc s => optJ (mapJ intJ) s | .gsum s => optJ (mapJ ratJ) s | .gcount s => optJ (mapJ intJ) s
  | .gsize s => optJ (mapJ intJ) s | .gmean s => optJ gmeanStJ s | .gvar _ s => optJ gvarStJ s

/-- `accumulator` + accumulate node on one batch (`x` for column aggregations, `rows` for groupby). -/
def AState.step (a : AState) (x : Col) (rows : List GRow) : AState × Json :=
  match a with
  | .sum s => let r := node Sum s x; (.sum r.1, ratJ r.2)
  | .count s => let r := node Count s x; (.count r.1, intJ r.2)
  | .size s => let r := node Size s x; (.size r.1, intJ r.2)
  | .mean s => let r := node Mean s x; (.mean r.1, valJ r.2)
  | .meanOrig s => let r := node MeanOrig s x; (.meanOrig r.1, valJ r.2)
  | .var d s => let r := node (Var d) s x; (.var d r.1, resJ r.2)
  | .vc s => let r := node ValueCounts s x; (.vc r.1, mapJ intJ r.2)
  | .gsum s => let r := node GroupbySum s rows; (.gsum r.1, mapJ ratJ r.2)
  | .gcount s => let r := node GroupbyCount s rows; (.gcount r.1, mapJ intJ r.2)
  | .gsize s => let r := node GroupbySize s rows; (.gsize r.1, mapJ intJ r.2)
  | .gmean s => let r := node GroupbyMean s rows; (.gmean r.1, mapJ valJ r.2)
  | .gvar d s => let r := node (GroupbyVar d) s rows; (.gvar d r.1, mapJ valJ r.2)

/-- `on_old` on the current state (none when there is no state yet). -/
def AState.old (a : AState) (x : Col) (rows : List GRow) : Option (AState × Json) :=
  match a with
  | .sum (some s) => let r := Sum.onOld s x; some (.sum (some r.1), ratJ r.2)
  | .count (some s) => let r := Count.onOld s x; some (.count (some r.1), intJ r.2)
  | .size (some s) => let r := Size.onOld s x; some (.size (some r.1), intJ r.2)
  | .mean (some s) => let r := Mean.onOld s x; some (.mean (some r.1), valJ r.2)
  | .var d (some s) => let r := Var.onOld d s x; some (.var d (some r.1), resJ r.2)
  | .vc (some s) => let r := ValueCounts.onOld s x; some (.vc (some r.1), mapJ intJ r.2)
  | .gsum (some s) => let r := GroupbySum.onOld s rows; some (.gsum (some r.1), mapJ ratJ r.2)
  | .gcount (some s) => let r := GroupbyCount.onOld s rows; some (.gcount (some r.1), mapJ intJ r.2)
  | .gsize (some s) => let r := GroupbySize.onOld s rows; some (.gsize (some r.1), mapJ intJ r.2)
  | .gmean (some s) => let r := GroupbyMean.onOld s rows; some (.gmean (some r.1), mapJ valJ r.2)
  | .gvar d (some s) => let r := GroupbyVar.onOld d s rows; some (.gvar d (some r.1), mapJ valJ r.2)
  | _ => none

/-! ### api mode -/

inductive Target
  | col (e : CExpr)
  | frame
  | group (key : CExpr) (val : String)

structure Api where
  cols : List String
  pipe : List Stage
  target : Target
  states : List (String × AState)

inductive DSt
  | none
  | direct (a : AState) (stack : List AState)
  | api (c : Api)

def colsAfter (cols : List String) : List Stage → List String
  | [] => cols
  | .filter _ :: p => colsAfter cols p
  | .assign c _ :: p => colsAfter (if cols.contains c then cols else cols ++ [c]) p
  | .select cs :: p => colsAfter cs p

def frameOf (cols : List String) (j : Json) : Option Frame := do
  let cs ← cols.mapM (fun c => getCol j c)
  let n := (cs.head?.map List.length).getD 0
  if cs.all (fun c => c.length == n) then
    some ((List.range n).map fun i => (cols.zip cs).map fun p => (p.1, (p.2[i]?).join))
  else none

def frameJ (cols : List String) (fr : Frame) : Json :=
  Json.mkObj [("cols", toJson cols),
              ("rows", Json.arr (fr.map fun r => Json.arr (cols.map fun c => valJ (r.get c)).toArray).toArray)]

def resetApi (j : Json) : Option Api := do
  let cols ← strList (← (j.getObjVal? "cols").toOption)
  let pipeJ ← getArr j "pipe"
  let pipe ← pipeJ.toList.mapM stageOf
  let t ← (j.getObjVal? "target").toOption
  let kind ← getStr t "kind"
  let agg ← getStr t "agg"
  let ddof := (getNat t "ddof").getD 1
  match kind with
  | "col" =>
    let e ← cexprOf (← (t.getObjVal? "expr").toOption)
    let a ← AState.ofName agg ddof
    if a.grouped then none else some { cols, pipe, target := .col e, states := [("", a)] }
  | "frame" =>
    let a ← AState.ofName agg ddof
    if a.grouped then none else
    some { cols, pipe, target := .frame, states := (colsAfter cols pipe).map fun c => (c, a) }
  | "group" =>
    let key ← cexprOf (← (t.getObjVal? "key").toOption)
    let val ← getStr t "val"
    let a ← AState.ofName ("g" ++ agg) ddof
    some { cols, pipe, target := .group key val, states := [("", a)] }
  | _ => none

def stepApi (c : Api) (j : Json) : Option (Api × Json) := do
  let cj ← (j.getObjVal? "cols").toOption
  let fr0 ← frameOf c.cols cj
  let fr := evalPipe c.pipe fr0
  let outCols := colsAfter c.cols c.pipe
  match c.target with
  | .col e =>
    let (_, a) ← c.states.head?
    let (a', r) := a.step (e.eval fr) []
    some ({ c with states := [("", a')] },
          Json.mkObj [("frame", frameJ outCols fr), ("operand", Json.arr ((e.eval fr).map valJ).toArray), ("result", r)])
  | .group key val =>
    let (_, a) ← c.states.head?
    let (a', r) := a.step [] (grows key val fr)
    some ({ c with states := [("", a')] },
          Json.mkObj [("frame", frameJ outCols fr), ("operand", Json.arr ((key.eval fr).map valJ).toArray), ("result", r)])
  | .frame =>
    let stepped := c.states.map fun p => (p.1, p.2.step ((CExpr.col p.1).eval fr) [])
    some ({ c with states := stepped.map fun p => (p.1, p.2.1) },
          Json.mkObj [("frame", frameJ outCols fr), ("result", Json.mkObj (stepped.map fun p => (p.1, p.2.2)))])

def step (st : DSt) (j : Json) : DSt × Json :=
  match getStr j "op" with
  | some "reset" =>
    match getStr j "mode" with
    | some "direct" =>
      match getStr j "agg" with
      | some a =>
        match AState.ofName a ((getNat j "ddof").getD 1) with
        | some s => (DSt.direct s [], Json.mkObj [("ok", true)])
        | none => (st, badOp "agg")
      | none => (st, badOp "agg")
    | some "api" =>
      match resetApi j with
      | some c => (DSt.api c, Json.mkObj [("ok", true)])
      | none => (st, badOp "api header")
    | _ => (st, badOp "mode")
  | some "batch" =>
    match st with
    | DSt.direct a stk =>
      match getCol j "x", (if a.grouped then getCol j "g" else some []) with
      | some x, some g =>
        if a.grouped && x.length != g.length then (st, badOp "lengths") else
        let (a', r) := a.step x (g.zip x)
        (DSt.direct a' stk, Json.mkObj [("state", a'.stateJ), ("result", r)])
      | _, _ => (st, badOp "batch")
    | DSt.api c =>
      match stepApi c j with
      | some (c', ans) => (DSt.api c', ans)
      | none => (st, badOp "batch")
    | DSt.none => (st, badOp "no case")
  | some "old" =>
    match st with
    | DSt.direct a stk =>
      match getCol j "x", (if a.grouped then getCol j "g" else some []) with
      | some x, some g =>
        if a.grouped && x.length != g.length then (st, badOp "lengths") else
        match a.old x (g.zip x) with
        | some (a', r) => (DSt.direct a' stk, Json.mkObj [("state", a'.stateJ), ("result", r)])
        | none => (st, badOp "old without state")
      | _, _ => (st, badOp "old")
    | _ => (st, badOp "old")
  | some "push" =>
    match st with
    | DSt.direct a stk => (DSt.direct a (a :: stk), Json.mkObj [("ok", true)])
    | _ => (st, badOp "push")
  | some "pop" =>
    match st with
    | DSt.direct _ (a :: stk) => (DSt.direct a stk, Json.mkObj [("ok", true)])
    | _ => (st, badOp "pop")
  | _ => (st, badOp "op")

def main : IO Unit := runLoop step DSt.none
