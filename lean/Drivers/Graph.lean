import StreamzVerif.Driver.Util
import StreamzVerif.Model.Edit
/-! Line-protocol driver for the synchronous dataflow model (Model/Graph.lean, Model/Edit.lean).

  {"op":"reset","nodes":[{"kind":"map","f":["inc"],"ups":[0]}, ...]}   -> {"ok":true}
  {"op":"emit","node":i,"val":v,"md":[{"tag":t,"ref":r|null},...]}      -> {"log":[...],"toks":[...],"err":null|"raised:X"}
  {"op":"flush","node":i}                                               -> same
  {"op":"sinkdone","tok":k} | {"op":"sinkfail","tok":k}                 -> {"log":[...]}
  {"op":"connect"|"disconnect","up":u,"down":d} | {"op":"destroy","node":d[,"streams":[u,..]]} | {"op":"drop","node":i}
                                                                         -> {"log":[...],"err":...}
  {"op":"counts","refs":[r,...]}                                        -> {"counts":[...]}
  {"op":"links"}                                                        -> {"downs":[[..],..],"ups":[[..],..],"alive":[..]}
Values: JSON ints, strings, null, arrays = Python lists, {"t":[...]} = tuples.
-/
open Lean StreamzVerif StreamzVerif.Driver StreamzVerif.Graph

partial def valOfJson : Json → Option Val
  | .null => some .none
  | .str s => some (.str s)
  | .num n => if n.exponent = 0 then some (.int n.mantissa) else none
  | .arr a => (a.toList.mapM valOfJson).map .lst
  | .obj o => match o.get? "t" with
    | some (.arr a) => (a.toList.mapM valOfJson).map .tup
    | _ => none
  | _ => none

partial def valToJson : Val → Json
  | .none => .null
  | .str s => .str s
  | .int i => toJson i
  | .lst l => .arr (l.map valToJson).toArray
  | .tup l => Json.mkObj [("t", .arr (l.map valToJson).toArray)]

def fnOfJson (j : Json) : Option Fn :=
  match j with
  | .arr a =>
    let name := (a[0]? >>= fun x => x.getStr?.toOption).getD ""
    let n1 := (a[1]? >>= fun x => x.getNat?.toOption).getD 0
    let n2 := (a[2]? >>= fun x => x.getNat?.toOption).getD 0
    let i1 := (a[1]? >>= fun x => x.getInt?.toOption).getD 0
    match name with
    | "id" => some .id | "inc" => some .inc | "dbl" => some .dbl | "neg" => some .neg
    | "modk" => some (.modk n1) | "const" => some (.const i1) | "pair" => some .pair
    | "fst" => some .fst | "snd" => some .snd | "sumTup" => some .sumTup | "len" => some .len
    | "rep" => some (.rep n1) | "failIf" => some (.failIf n1 n2) | "isEven" => some .isEven
    | "gt" => some (.gt i1) | "truthy" => some .truthy | "failPred" => some (.failPred n1 n2)
    | "bucketNone" => some (.bucketNone n1)
    | _ => none
  | _ => none

def fn2OfJson (j : Json) : Option Fn2 :=
  match j with
  | .arr a =>
    let name := (a[0]? >>= fun x => x.getStr?.toOption).getD ""
    let n1 := (a[1]? >>= fun x => x.getNat?.toOption).getD 0
    let n2 := (a[2]? >>= fun x => x.getNat?.toOption).getD 0
    match name with
    | "add" => some .add | "max" => some .max | "cnt" => some .cnt | "addRS" => some .addRS
    | "failAdd" => some (.failAdd n1 n2) | "snoc" => some .snoc
    | _ => none
  | _ => none

def optNat (j : Json) (k : String) : Option Nat :=
  match j.getObjVal? k with
  | .ok (.num n) => if n.exponent = 0 then some n.mantissa.toNat else none
  | _ => none

def kindOfJson (j : Json) : Option Kind := do
  let k ← getStr j "kind"
  match k with
  | "source" => pure .source
  | "union" => pure .union
  | "map" => do let f ← fnOfJson (← (j.getObjVal? "f").toOption); pure (.map f)
  | "starmap" => do let f ← fnOfJson (← (j.getObjVal? "f").toOption); pure (.starmap f)
  | "filter" => do let f ← fnOfJson (← (j.getObjVal? "f").toOption); pure (.filter f)
  | "accumulate" => do
    let f ← fn2OfJson (← (j.getObjVal? "f").toOption)
    let start := match j.getObjVal? "start" with
      | .ok .null => none
      | .ok v => match j.getObjVal? "has_start" with
        | .ok (.bool true) => valOfJson v
        | _ => none
      | _ => none
    pure (.accumulate f start ((getBool j "returns_state").getD false) ((getBool j "with_state").getD false))
  | "slice" => pure (.slice ((optNat j "start").getD 0) (optNat j "end") (match optNat j "step" with | some 0 => 1 | some s => s | none => 1))
  | "partition" => do
    let n ← getNat j "n"
    let key := (j.getObjVal? "key").toOption >>= fnOfJson
    pure (.partition n key)
  | "partition_unique" => do
    let n ← getNat j "n"
    let key ← fnOfJson (← (j.getObjVal? "key").toOption)
    pure (.partitionUnique n key ((getStr j "keep").getD "first" == "last"))
  | "sliding_window" => do pure (.slidingWindow (← getNat j "n") ((getBool j "partial").getD true))
  | "unique" => do
    let key ← fnOfJson (← (j.getObjVal? "key").toOption)
    pure (.unique (optNat j "maxsize") key ((getBool j "hashable").getD true))
  | "flatten" => pure .flatten
  | "pluck" => match j.getObjVal? "pick" with
    | .ok (.arr a) => do let l ← a.toList.mapM (fun x => x.getNat?.toOption); pure (.pluck (.idxs l))
    | .ok v => do let i ← v.getNat?.toOption; pure (.pluck (.idx i))
    | _ => none
  | "collect" => pure .collect
  | "zip" => do
    let lits := (getArr j "literals").getD #[]
    let l ← lits.toList.mapM (fun p => match p with
      | .arr q => do
        let i ← (q[0]? >>= fun x => x.getNat?.toOption)
        let v ← (q[1]? >>= valOfJson)
        pure (i, v)
      | _ => none)
    pure (.zip l)
  | "combine_latest" => pure (.combineLatest (getNatList j "emit_on"))
  | "zip_latest" => pure .zipLatest
  | "sink" => match getStr j "mode" with
    | some "async" => pure (.sink .async)
    | _ => do let f ← fnOfJson (← (j.getObjVal? "f").toOption); pure (.sink (.sync f))
  | _ => none

structure DSt where
  n : Nat := 0
  kinds : Array Kind := #[]
  S : State := { loc := fun _ => {}, downs := fun _ => [] }
  live : Live := { held := fun _ => true, sinkReg := fun _ => false }

def DSt.G (d : DSt) : NodeId → Kind := fun i => d.kinds.getD i .source

def fuel : Nat := 200000

def initState (kinds : List Kind) (upss : List (List NodeId)) : State :=
  let idx := List.range kinds.length
  let loc0 : NodeId → NState := fun i =>
    let ups := upss.getD i []
    match kinds.getD i .source with
    | .zip _ => { ups := ups, bufs := ups.eraseDups.map (fun u => (u, [])) }
    | .combineLatest eo =>
      { ups := ups, last := ups.map (fun _ => Val.none), lastMd := ups.map (fun _ => []),
        missing := ups.eraseDups, emitOn := match eo with | none => ups | some l => l.filterMap (fun k => ups[k]?) }
    | .zipLatest =>
      { ups := ups, last := ups.map (fun _ => Val.none), lastMd := ups.map (fun _ => []), missing := ups.eraseDups }
    | .accumulate _ start _ _ => { ups := ups, acc := start }
    | _ => { ups := ups }
  let downs0 : NodeId → List NodeId := fun u =>
    (idx.filter (fun i => (upss.getD i []).contains u))
  { loc := loc0, downs := downs0 }

def mdOfJson (j : Json) : Meta :=
  match j with
  | .arr a => a.toList.filterMap (fun e => do
      let t ← getNat e "tag"
      pure { tag := t, ref := optNat e "ref" })
  | _ => []

def tagsJson (md : Meta) : Json := toJson (md.map (·.tag))

def evJson : Ev → Json
  | .arrive d who v md => .arr #["arrive", toJson d, toJson who, valToJson v, tagsJson md]
  | .emit n v md => .arr #["emit", toJson n, valToJson v, tagsJson md]
  | .retain r k => .arr #["retain", toJson r, toJson k]
  | .release r => .arr #["release", toJson r]
  | .fire r => .arr #["fire", toJson r]
  | .sinkStart s tok v md => .arr #["start", toJson s, toJson tok, valToJson v, tagsJson md]
  | .sinkDone tok => .arr #["done", toJson tok]
  | .raised n e => .arr #["raised", toJson n, e.name]

def errJson : Option Err → Json
  | none => .null
  | some .outOfFuel => "out-of-fuel"
  | some e => Json.str ("raised:" ++ e.name)

def resJson (r : Res) : Json :=
  Json.mkObj [("log", .arr (r.log.map evJson).toArray), ("toks", toJson r.toks), ("err", errJson r.err),
              ("carried", errJson r.carried)]

def nodesList (d : DSt) : List NodeId := List.range d.n

/-- After anything that can change liveness: run the collector. -/
def gc (d : DSt) : DSt := { d with S := collect (nodesList d) d.live d.S }

def isSink (k : Kind) : Bool := match k with | .sink _ => true | _ => false

def step (d : DSt) (j : Json) : DSt × Json :=
  match getStr j "op" with
  | some "reset" =>
    match getArr j "nodes" with
    | none => (d, badOp "nodes")
    | some a =>
      match a.toList.mapM kindOfJson with
      | none => (d, badOp "kind")
      | some kinds =>
        let upss := a.toList.map (fun n => (getNatList n "ups").getD [])
        let karr := kinds.toArray
        ({ n := kinds.length, kinds := karr, S := initState kinds upss,
           live := { held := fun _ => true, sinkReg := fun i => isSink (karr.getD i .source) } },
         Json.mkObj [("ok", true)])
  | some "emit" =>
    match getNat j "node", (j.getObjVal? "val").toOption >>= valOfJson with
    | some i, some v =>
      let md := mdOfJson ((j.getObjVal? "md").toOption.getD .null)
      let r := emitAt d.G fuel i v md d.S
      ({ d with S := r.st }, resJson r)
    | _, _ => (d, badOp "emit")
  | some "flush" =>
    match getNat j "node" with
    | some i => let r := flushAt d.G fuel i d.S; ({ d with S := r.st }, resJson r)
    | none => (d, badOp "flush")
  | some "sinkdone" =>
    match getNat j "tok" with
    | some t => match sinkDone t d.S with
      | some (S', l) => ({ d with S := S' }, Json.mkObj [("log", .arr (l.map evJson).toArray)])
      | none => (d, badOp "tok")
    | none => (d, badOp "sinkdone")
  | some "sinkfail" =>
    match getNat j "tok" with
    | some t => match sinkFail t d.S with
      | some S' => ({ d with S := S' }, Json.mkObj [("log", .arr #[])])
      | none => (d, badOp "tok")
    | none => (d, badOp "sinkfail")
  | some "connect" =>
    match getNat j "up", getNat j "down" with
    | some u, some dn => ({ d with S := connect d.G u dn d.S }, Json.mkObj [("log", .arr #[]), ("err", .null)])
    | _, _ => (d, badOp "connect")
  | some "disconnect" =>
    match getNat j "up", getNat j "down" with
    | some u, some dn =>
      let r := disconnect d.G u dn d.S
      (gc { d with S := r.st }, Json.mkObj [("log", .arr (r.log.map evJson).toArray), ("err", errJson r.err)])
    | _, _ => (d, badOp "disconnect")
  | some "destroy" =>
    match getNat j "node" with
    | some i =>
      -- {"op":"destroy","node":d,"streams":[u,...]} = d.destroy(streams=[...]); without "streams": all upstreams
      let r := match getNatList j "streams" with
        | some sel => destroySel d.G sel i d.S
        | none => destroy d.G i d.S
      -- Sink.destroy: super().destroy(); _global_sinks.remove(self)   (KeyError when destroyed twice)
      let err := if r.err.isNone && isSink (d.G i) && !d.live.sinkReg i then some Err.keyError else r.err
      let live := if r.err.isNone && isSink (d.G i) then { d.live with sinkReg := fun q => if q = i then false else d.live.sinkReg q } else d.live
      (gc { d with S := r.st, live := live }, Json.mkObj [("log", .arr (r.log.map evJson).toArray), ("err", errJson err)])
    | none => (d, badOp "destroy")
  | some "drop" =>
    match getNat j "node" with
    | some i =>
      let live := { d.live with held := fun q => if q = i then false else d.live.held q }
      (gc { d with live := live }, Json.mkObj [("log", .arr #[]), ("err", .null)])
    | none => (d, badOp "drop")
  | some "counts" =>
    match getNatList j "refs" with
    | some l => (d, Json.mkObj [("counts", toJson (l.map d.S.count))])
    | none => (d, badOp "counts")
  | some "links" =>
    let nodes := nodesList d
    let a := alive nodes d.live d.S
    (d, Json.mkObj [("downs", toJson (nodes.map d.S.downs)), ("ups", toJson (nodes.map (fun i => (d.S.loc i).ups))),
                    ("alive", toJson (nodes.filter a))])
  | _ => (d, badOp "op")

def main : IO Unit := runLoop step {}
