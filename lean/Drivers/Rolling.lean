import StreamzVerif.Driver.Util
import StreamzVerif.Model.Rolling
/-! Line-protocol driver for the C11 models (rolling / cumulative / expanding / ewm).
  {"op":"reset","model":"rolling","win":"count"|"time","W":2,"agg":"sum",["q":[1,4]]}  -> {"ok":true}
      {"op":"batch","rows":[[t,v|null],...]}  -> {"out":[r,...],"carry":[[t,v|null],...]}     r = null | [num,den]
      {"op":"whole","rows":[...]}             -> {"out":[r,...]}      (one-pass definition, state untouched)
  {"op":"reset","model":"cum","f":"cumsum|cumprod|cummin|cummax",["orig":true]}           -> {"ok":true}
      {"op":"batch","vals":[v|null,...]}      -> {"out":[v|null,...],"state":[v|null]}
      {"op":"whole","vals":[...]}             -> {"out":[...]}
  {"op":"reset","model":"exp","agg":"sum|count|mean|var",["ddof":1]}                       -> {"ok":true}
      {"op":"batch","vals":[...]}             -> {"out":r,"rows":n}
      {"op":"whole","vals":[...]}             -> {"out":r}
  {"op":"reset","model":"ewm","q":[1,2],["orig":true]}                                     -> {"ok":true}
      {"op":"batch","vals":[v,...]}           -> {"out":r,"old_wt":[num,den],"is_first":b}
      {"op":"whole","vals":[...]}             -> {"out":r}
  {"op":"reset","model":"ewmnan","q":[1,2]}       NaN-aware EWMean (`ewmStepNan`) + pandas NaN spec (`ewmAtNan`)  -> {"ok":true}
      {"op":"batch","vals":[v|null,...]}      -> {"out":f,"old_wt":[num,den],"is_first":b,"rows":n,"pandas":f}
                                                 f = [] (empty frame) | [null] (a NaN row) | [[num,den]];
                                                 "pandas" = the specification at the last of the rows seen so far
      {"op":"whole","vals":[v|null,...]}      -> {"out":[r,...]}     (`ewmWholeNan`: the specification at every row)
-/
open Lean StreamzVerif StreamzVerif.Driver StreamzVerif.Rolling

def ratJ (r : Rat) : Json := Json.arr #[toJson r.num, toJson r.den]
def oratJ : Option Rat → Json
  | none => Json.null
  | some r => ratJ r
def ointJ : Option Int → Json
  | none => Json.null
  | some v => toJson v
/-- a one-row frame of one column: [] | [null] | [[num,den]] -/
def frameJ : Option (Option Rat) → Json
  | none => Json.arr #[]
  | some c => Json.arr #[oratJ c]
def rowJ (r : Row) : Json := Json.arr #[toJson r.t, ointJ r.v]

def parseOInt (j : Json) : Option (Option Int) :=
  match j with
  | Json.null => some none
  | _ => (fromJson? j : Except String Int).toOption.map some
def parseRow (j : Json) : Option Row :=
  match j with
  | Json.arr #[t, v] =>
    match (fromJson? t : Except String Int).toOption, parseOInt v with
    | some t, some v => some { t := t, v := v }
    | _, _ => none
  | _ => none
def parseRows (j : Json) (k : String) : Option (List Row) := (getArr j k).bind (fun a => a.toList.mapM parseRow)
def parseVals (j : Json) (k : String) : Option (List (Option Int)) := (getArr j k).bind (fun a => a.toList.mapM parseOInt)
def parseRat (j : Json) (k : String) : Option Rat :=
  match getIntList j k with
  | some [n, d] => if d = 0 then none else some ((n : Rat) / (d : Rat))
  | _ => none

inductive Win
  | count (W : Nat)
  | time (W : Int)

def cumOp : String → Option (Int → Int → Int)
  | "cumsum" => some (· + ·)
  | "cumprod" => some (· * ·)
  | "cummin" => some min
  | "cummax" => some max
  | _ => none

inductive ExpK
  | sum | count | mean | var (ddof : Nat)

inductive DSt
  | none
  | roll (w : Win) (agg : String) (q : Rat) (acc : List Row)
  | cum (f : Int → Int → Int) (orig : Bool) (state : List (Option Int))
  | expSum (acc : Option (List (List (Option Rat)) × Rat))
  | expCount (acc : Option (List (List (Option Rat)) × Nat))
  | expMean (acc : Option (List (List (Option Rat)) × (Rat × Nat)))
  | expVar (ddof : Nat) (acc : Option (List (List (Option Rat)) × (Rat × Rat × Nat)))
  | ewm (q : Rat) (orig : Bool) (acc : Option (List (List Rat) × EwmSt))
  | ewmNan (q : Rat) (acc : Option (List (List (Option Rat)) × EwmNanSt))

def rollStepOf (w : Win) (agg : String) (q : Rat) : List Row → List Row → List Row × List (Option Rat) :=
  match w with
  | .count W => rollStepCount W (winAgg agg W q)
  | .time W => rollStepTime (·.t) W (winAgg agg 1 q)
def rollWholeOf (w : Win) (agg : String) (q : Rat) (rows : List Row) : List (Option Rat) :=
  match w with
  | .count W => rollWhole (selCount W) (winAgg agg W q) rows
  | .time W => rollWhole (selTime (·.t) W) (winAgg agg 1 q) rows

def toRatCells (l : List (Option Int)) : List (Option Rat) := l.map (·.map (fun (x : Int) => (x : Rat)))
def rowsOf {γ : Type} (acc : Option (List (List γ) × σ)) : Nat :=
  match acc with
  | Option.none => 0
  | some (dfs, _) => dfs.flatten.length

def step (st : DSt) (j : Json) : DSt × Json :=
  let ok := Json.mkObj [("ok", true)]
  match getStr j "op" with
  | some "reset" =>
    match getStr j "model" with
    | some "rolling" =>
      let q := (parseRat j "q").getD (1 / 2)
      match getStr j "win", getInt j "W", getStr j "agg" with
      | some "count", some W, some a => if W < 0 then (st, badOp "W") else (DSt.roll (.count W.toNat) a q [], ok)
      | some "time", some W, some a => (DSt.roll (.time W) a q [], ok)
      | _, _, _ => (st, badOp "rolling header")
    | some "cum" =>
      match (getStr j "f").bind cumOp with
      | some f => (DSt.cum f ((getBool j "orig").getD false) [], ok)
      | none => (st, badOp "f")
    | some "exp" =>
      match getStr j "agg" with
      | some "sum" => (DSt.expSum Option.none, ok)
      | some "count" => (DSt.expCount Option.none, ok)
      | some "mean" => (DSt.expMean Option.none, ok)
      | some "var" => (DSt.expVar ((getNat j "ddof").getD 1) Option.none, ok)
      | _ => (st, badOp "agg")
    | some "ewm" =>
      match parseRat j "q" with
      | some q => (DSt.ewm q ((getBool j "orig").getD false) Option.none, ok)
      | none => (st, badOp "q")
    | some "ewmnan" =>
      match parseRat j "q" with
      | some q => (DSt.ewmNan q Option.none, ok)
      | none => (st, badOp "q")
    | _ => (st, badOp "model")
  | some "batch" =>
    match st with
    | DSt.roll w a q acc =>
      match parseRows j "rows" with
      | some rows =>
        let r := rollStepOf w a q acc rows
        (DSt.roll w a q r.1, Json.mkObj [("out", Json.arr (r.2.map oratJ).toArray), ("carry", Json.arr (r.1.map rowJ).toArray)])
      | Option.none => (st, badOp "rows")
    | DSt.cum f orig state =>
      match parseVals j "vals" with
      | some vals =>
        let r := if orig then cumStepOrig f state vals else cumStep f state vals
        (DSt.cum f orig r.1, Json.mkObj [("out", Json.arr (r.2.map ointJ).toArray), ("state", Json.arr (r.1.map ointJ).toArray)])
      | Option.none => (st, badOp "vals")
    | DSt.expSum acc =>
      match parseVals j "vals" with
      | some vals =>
        let r := expStep aggSum acc (toRatCells vals)
        (DSt.expSum r.1, Json.mkObj [("out", ratJ r.2), ("rows", toJson (rowsOf r.1))])
      | Option.none => (st, badOp "vals")
    | DSt.expCount acc =>
      match parseVals j "vals" with
      | some vals =>
        let r := expStep aggCount acc (toRatCells vals)
        (DSt.expCount r.1, Json.mkObj [("out", ratJ (r.2 : Nat)), ("rows", toJson (rowsOf r.1))])
      | Option.none => (st, badOp "vals")
    | DSt.expMean acc =>
      match parseVals j "vals" with
      | some vals =>
        let r := expStep aggMean acc (toRatCells vals)
        (DSt.expMean r.1, Json.mkObj [("out", oratJ r.2), ("rows", toJson (rowsOf r.1))])
      | Option.none => (st, badOp "vals")
    | DSt.expVar ddof acc =>
      match parseVals j "vals" with
      | some vals =>
        let r := expStep (aggVar ddof) acc (toRatCells vals)
        (DSt.expVar ddof r.1, Json.mkObj [("out", oratJ r.2), ("rows", toJson (rowsOf r.1))])
      | Option.none => (st, badOp "vals")
    | DSt.ewm q orig acc =>
      match (getIntList j "vals") with
      | some vals =>
        let xs : List Rat := vals.map (fun (x : Int) => (x : Rat))
        let r := if orig then ewmStepOrig q acc xs else ewmStep q acc xs
        match r.1 with
        | some (_, s) =>
          (DSt.ewm q orig r.1, Json.mkObj [("out", oratJ r.2), ("old_wt", ratJ s.oldWt), ("is_first", s.isFirst)])
        | Option.none => (st, badOp "ewm state")
      | Option.none => (st, badOp "vals")
    | DSt.ewmNan q acc =>
      match parseVals j "vals" with
      | some vals =>
        let r := ewmStepNan q acc (toRatCells vals)
        match r.1 with
        | some (dfs, s) =>
          (DSt.ewmNan q r.1, Json.mkObj [("out", frameJ r.2), ("old_wt", ratJ s.oldWt), ("is_first", s.isFirst),
            ("rows", toJson dfs.flatten.length), ("pandas", frameJ (ewmAtNan q dfs.flatten))])
        | Option.none => (st, badOp "ewm state")
      | Option.none => (st, badOp "vals")
    | DSt.none => (st, badOp "batch before reset")
  | some "whole" =>
    match st with
    | DSt.roll w a q _ =>
      match parseRows j "rows" with
      | some rows => (st, Json.mkObj [("out", Json.arr ((rollWholeOf w a q rows).map oratJ).toArray)])
      | Option.none => (st, badOp "rows")
    | DSt.cum f _ _ =>
      match parseVals j "vals" with
      | some vals => (st, Json.mkObj [("out", Json.arr ((cumWhole f vals).map ointJ).toArray)])
      | Option.none => (st, badOp "vals")
    | DSt.expSum _ =>
      match parseVals j "vals" with
      | some vals => (st, Json.mkObj [("out", ratJ (sumR (valid (toRatCells vals))))])
      | Option.none => (st, badOp "vals")
    | DSt.expCount _ =>
      match parseVals j "vals" with
      | some vals => (st, Json.mkObj [("out", ratJ ((valid (toRatCells vals)).length : Nat))])
      | Option.none => (st, badOp "vals")
    | DSt.expMean _ =>
      match parseVals j "vals" with
      | some vals =>
        let t := valid (toRatCells vals)
        (st, Json.mkObj [("out", oratJ (meanOf (sumR t) t.length))])
      | Option.none => (st, badOp "vals")
    | DSt.expVar ddof _ =>
      match parseVals j "vals" with
      | some vals =>
        let t := valid (toRatCells vals)
        (st, Json.mkObj [("out", oratJ (varOf ddof (sumR t) (sumSqR t) t.length))])
      | Option.none => (st, badOp "vals")
    | DSt.ewm q _ _ =>
      match getIntList j "vals" with
      | some vals => (st, Json.mkObj [("out", oratJ (ewmAt q (vals.map (fun (x : Int) => (x : Rat)))))])
      | Option.none => (st, badOp "vals")
    | DSt.ewmNan q _ =>
      match parseVals j "vals" with
      | some vals =>
        (st, Json.mkObj [("out", Json.arr ((ewmWholeNan q [] (toRatCells vals)).map (fun o => oratJ (o.getD Option.none))).toArray)])
      | Option.none => (st, badOp "vals")
    | DSt.none => (st, badOp "whole before reset")
  | _ => (st, badOp "op")

def main : IO Unit := runLoop step DSt.none
