-- Root of the StreamzVerif library: models, helper proofs, property theorems, driver plumbing.
import StreamzVerif.Driver.Util
import StreamzVerif.Model.TextFile
import StreamzVerif.Proofs.TextFile
import StreamzVerif.Props.C17
