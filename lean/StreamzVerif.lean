-- Root of the StreamzVerif library: models, helper proofs, property theorems, driver plumbing.
import StreamzVerif.Driver.Util
import StreamzVerif.Model.TextFile
import StreamzVerif.Proofs.TextFile
import StreamzVerif.Props.C17
import StreamzVerif.Model.Val
import StreamzVerif.Model.Graph
import StreamzVerif.Model.Edit
import StreamzVerif.Props.C01
import StreamzVerif.Props.C10
import StreamzVerif.Props.C05
import StreamzVerif.Model.RateLimit
import StreamzVerif.Proofs.RateLimit
import StreamzVerif.Props.C13
import StreamzVerif.Model.Source
import StreamzVerif.Proofs.Source
import StreamzVerif.Props.C18
